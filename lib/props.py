"""Per-property configuration of the checks: stages (binary x flavour x sharding), observation floors,
claimed level, assumptions. Read by ./check and by tools/gen_manifest.py."""

STAGE_DEFAULTS = {"watchdog_s": {"quick": 900, "thorough": 5400}}

E2 = dict(crate="e2")

PROPS = {}

PROPS["C07"] = dict(
    title="Quorum thresholds satisfy the n >= 5f+1 intersection arithmetic",
    level="exploration",
    technique="runtime oracle (u128 re-computation) over generated total weights, both arithmetic flavours",
    explanation="max_faulty_weight/quorum_threshold/subquorum_threshold of /repo are evaluated on a dense low range, "
    "+-70 around every power of two up to 2^64, and random u64 with every residue mod 5; each result is compared "
    "with the inequalities of the property recomputed in u128. The `checked` flavour runs the same inputs with "
    "overflow checks on, so any overflow/underflow is a caught panic.",
    assumptions=[
        "2^64 weights cannot be enumerated at run time: held on the evaluated n only",
        "u128 arithmetic of the oracle is trusted",
    ],
    stages=[
        dict(name="release", flavour="release", **E2),
        dict(name="checked", flavour="checked", **E2),
    ],
    floors={"quick": {"boundary_points": 8000, "schedule_sum_cases": 5}, "thorough": {"boundary_points": 8000}},
)

PROPS["C11"] = dict(
    title="Leader election is a total, deterministic, eligible-only function",
    level="exploration",
    technique="runtime oracle: independent reference leader function + totality/eligibility/permutation/rotation monitors over generated schedules and views",
    explanation="Schedule::view_leader of /repo is called for generated schedules (1-12 validators, weight families incl. "
    "near-2^64 sums, eligible subsets, both modes, frequency in {0,1,2,3,7,2^32,u64::MAX}) on a dense view prefix, "
    "boundary views (multiples of the frequency +-1, u64::MAX) and random views; every answer is compared with an "
    "independently written reference and with reference-free checks (member, eligible, same for a permuted listing, "
    "constant within a turn, round-robin visits everyone once per cycle, never rotates for frequency 0). Weighted "
    "shares are reported as a statistic only. Panics are caught per call (both arithmetic flavours).",
    assumptions=[
        "sha3::Keccak256 (third-party crate) is trusted as the hash in the reference",
        "schedule order exposed by Schedule::iter() is the canonical committee order (public API contract)",
        "held on the generated schedules/views only",
    ],
    stages=[
        dict(name="release", flavour="release", **E2),
        dict(name="checked", flavour="checked", **E2, tiers=["thorough"]),
    ],
    floors={
        "quick": {"schedules_round-robin|freq=0": 5, "schedules_weighted|freq=0": 5, "schedules_weighted|freq=1": 5, "rr_windows_checked": 1000, "weighted_share_checks": 5},
        "thorough": {"schedules_round-robin|freq=0": 5, "schedules_weighted|freq=0": 5},
    },
)

# properties that are not claimed (with the reason); filled in only where the family genuinely cannot apply
NOT_APPLICABLE = {}

# hook commits in /repo (guard: cargo feature `verif`)
HOOK_COMMITS = ["a7bbd44 (bft: read-only replica observer)", "bc9722d (network: facade over crate-private items)", "a1b1679 (network facade: raw gossip peer)", "ccaf668 (network facade: split a transient stream)"]

PROPS["C04"] = dict(
    title="Certificates are accepted exactly when genuinely backed by a quorum",
    level="exploration",
    technique="runtime oracle: generator-owned ground truth (who signed what) vs. verdicts of verify()/add() on generated certificates and every single-field corruption",
    explanation="For generated committees (1-8 validators, six weight families, random genesis/epoch) the harness builds commit and "
    "timeout certificates, final blocks, proposals, new-view and timeout messages from real BLS signatures, for signer subsets "
    "exactly at / just below / above the quorum, assembles them incrementally through add() with interleaved bad adds, applies "
    "every single-field corruption of a table (bitmap bit/length, view, epoch, genesis, vote content, nested certificate, "
    "signature replaced/duplicated/by outsider, overlapping or empty signer groups, payload), and compares accept/reject of the "
    "real code with the verdict derived from the ground truth, both ways. Panics are caught per call.",
    assumptions=[
        "BLS (blst) is trusted: a signature verifies iff it was produced by the matching key over the same bytes",
        "held on the generated committees/corruptions only",
    ],
    stages=[dict(name="release", flavour="release", **E2), dict(name="asan", flavour="asan", shards=8, tiers=["thorough"], args={"cases": 40}, **E2)],
    floors={"quick": {"boundary_exactly_reaching_quorum": 200, "boundary_just_below_quorum": 200, "overlap_corruptions": 50, "incremental_qc_reached_quorum": 200, "CommitQC_genuine": 500, "TimeoutQC_genuine": 500, "nested_forgery_after_genuine_in_map_order": 100, "nested_forgery_before_genuine_in_map_order": 100},
            "thorough": {"boundary_exactly_reaching_quorum": 2000}},
)

PROPS["C02"] = dict(
    title="Certificate uniqueness: a certified block can never be displaced",
    level="exploration",
    technique="runtime oracle: safety expectation + spec reference for get_implied_block on generated history-consistent timeout certificates (E2); history monitor of potential commit quorums in the replica simulator (E1)",
    explanation="(a) ProposalJustification::get_implied_block of /repo is evaluated on timeout certificates generated from a ground-truth "
    "history: block (k,h) gathered a commit quorum Q in view v, faulty set B (weight <= f) reports anything it could validly sign, "
    "signer quorum S; correct signers report what such a history allows. Expected: (k, Some(h)) unless the certificate for k is "
    "reported, then number k+1. All (Q,B,S) triples are enumerated for the 6 x weight-1 committee; other committees (1-12 validators, "
    "four weight families) are sampled. Every result is also compared with a reference written from spec/informal-spec/types.rs, on "
    "history-consistent and on arbitrary assignments. Counters prove the sub-quorum boundary (exactly at / one below / two sub-quorums) was hit. Byzantine leaders also attach, to a forced re-proposal, a payload the replicas have seen (and cached) for that block number in an earlier view.",
    assumptions=[
        "the history model (which high votes / certificates correct validators can report after a commit quorum) is the induction hypothesis of the ChonkyBFT safety argument",
        "held on the generated certificates only; complete only over (Q,B,S) of the 6-validator committee, with sampled report alphabets",
    ],
    stages=[dict(name="implied-block", flavour="release", **E2)],
    floors={"quick": {"boundary_high_vote_weight_exactly_subquorum": 1000, "boundary_high_vote_weight_one_below_subquorum": 1000, "boundary_two_subquorums": 20, "family_A-locked-block": 10000, "family_B-some-saw-certificate": 10000, "family_A-faulty-reports-certificate": 1000, "exhaustive_QBS_enumerations": 1},
            "thorough": {"boundary_two_subquorums": 100, "exhaustive_QBS_enumerations": 1}},
)

PROPS["C09"] = dict(
    title="Wire encoding is lossless and canonical",
    level="exploration",
    technique="runtime oracle: round-trip + independent canonical encoder + independent re-serialiser (field order, packing, over-long varints) over edge-biased generated values of every wire/storage type",
    explanation="For every public wire/storage type (std conversions, all validator/node messages, certificates, blocks, genesis, schedule, "
    "replica state, signed envelopes) edge-biased generators (0/1/MAX integers, empty-but-present bytes, bit vectors of every length 0-70, "
    "0/1/many map entries, negative/extreme durations and timestamps, IPv4/IPv6) produce values x; the check demands encode(x)==canonical(x), "
    "decode(encode(x))==x, encode(x)== the canonical form computed by an independent encoder (written from the spec comment, not from proto_fmt.rs), "
    "and for 5 alternative valid serialisations a(x) produced by an independent re-serialiser: decode(a(x))==x and canonical_raw(a(x))==encode(x). "
    "No production message has repeated scalars, so packed/unpacked normalisation is exercised on a synthetic descriptor with repeated fields of every wire type. "
    "Equal values built in different ways (schedule listing order, vote insertion order, bit vectors by push vs bytes with garbage padding) must give equal bytes, hashes and verifiable signatures. "
    "The crate-private network messages (handshakes, RPC requests) are covered by the network stage through the verif facade.",
    assumptions=[
        "prost / prost-reflect descriptors are trusted for the message structure; PartialEq of the value types is trusted as value equality",
        "held on the generated values only",
    ],
    stages=[dict(name="public-types", flavour="release", **E2), dict(name="network-types", flavour="release", crate="net")],
    floors={"quick": {"alternative_serialisations_differing_from_canonical": 50000, "packed_unpacked_variants": 5000, "construction_order_cases": 1000, "values_TimeoutQC": 1000, "values_Duration": 1000, "values_mux.Handshake": 1000, "values_rpc.consensus.Req": 1000},
            "thorough": {"packed_unpacked_variants": 50000}},
)

SIM = dict(crate="sim")
_SIM_ASSUME = [
    "the simulated environment (harness network, storage, clock, Byzantine signer) is the trusted base; replicas run the unmodified bft::Config::run through public channels, observed through the cfg-guarded read-only observer",
    "held on the executions produced (sampled schedules / faults), not on all schedules",
]

PROPS["C01"] = dict(
    title="Agreement: correct nodes never commit conflicting blocks",
    level="exploration",
    technique="runtime monitoring of the real replicas in a deterministic simulator: global number->payload map over every block handed to storage, append-only/gap-free per node, independent re-verification of every committed block",
    explanation="N real replicas (bft::Config::run) of generated committees (1-9 validators, five weight families, both leader-selection modes, "
    "eligible subsets, <= f weight Byzantine) run on one deterministic runtime with a manual clock; the harness is network (loss, duplication, "
    "reordering, partitions, replays), storage, block sync (incl. forged blocks) and the Byzantine validators (equivocating proposals, votes for "
    "everything, lying timeout votes, early/old certificates, floods, other chain/epoch, non-members), plus crashes/restarts. Directed families "
    "(equivocating-leader, hidden-commit, timeout-liar, lagging-sync) create the shapes known to threaten agreement. Every block any correct node "
    "hands to storage is checked against a global map, the per-node sequence, and FinalBlock::verify. In half of the hidden-commit cases the correct voters of the hidden view are killed and restarted right after their commit vote left the node (before their next state change), so what they report in the following timeout comes from their durable state alone. In the lagging-sync family one correct replica (the others still form a quorum without it) is cut off for the first half of the case and then catches up from a lying peer: for every missing block the genuine successor is offered first (it parks behind the gap and its call is cancelled), then the block, then the successor's certificate again with another payload - every submission must be verified in full. In the twins family every Byzantine key additionally runs two real replicas (the production code, own storage, own proposals) in opposite halves of a two-way partition that is re-drawn every 20-150 steps, so equivocating proposals and votes come from the real state machine as well as from the harness-signed adversary; twin replicas are never judged, their traffic is Byzantine traffic.",
    assumptions=_SIM_ASSUME,
    stages=[dict(name="sim", flavour="release", **SIM), dict(name="sim-asan", flavour="asan", shards=8, tiers=["thorough"], args={"cases": 6}, **SIM)],
    floors={"quick": {"cases_with_commits": 60, "blocks_handed_to_storage": 2000, "byzantine_messages_accepted_total": 200, "cases_hidden-commit": 10, "hidden_commit_voters_restarted_right_after_their_vote": 15, "cases_equivocating-leader": 10, "cases_twins": 8, "messages_emitted_by_twin_replicas": 200, "views_with_two_different_proposals_by_twins_of_one_key": 1},
            "thorough": {"cases_with_commits": 40}},
)

PROPS["C02"]["stages"].append(dict(name="sim-history", flavour="release", **SIM))
PROPS["C02"]["explanation"] += (" (b) In the replica simulator (see C01) a history monitor maintains, from the commit votes emitted by correct replicas plus all "
    "faulty weight, the set of payloads per block number that could gather a commit quorum in some view; two payloads for one number, or a correct "
    "vote in a later view against a potential certificate, is a violation even if no node assembled either certificate.")
PROPS["C02"]["floors"]["quick"].update({"potential_certificates": 300, "cases_with_commits": 60})

PROPS["C03"] = dict(
    title="No vote equivocation by a correct validator, even across crashes",
    level="fault_enumeration",
    technique="runtime monitoring with crash-point enumeration: online checker over every message signed per validator key across incarnations + persist-before-send check against the durable state at every observation",
    explanation="In the replica simulator (see C01) every message a correct validator puts on its outbound channel is observed together with the durable "
    "replica state at that instant (the harness' EngineInterface drains the outbound channel inside every set_state/queue_next_block call before applying the write). "
    "Oracle per key across incarnations: no two different commit votes per view, no commit vote at or below a view with a signed timeout vote, vote views never "
    "decrease, and every commit/timeout/new-view message on the wire is covered by the durable state (persist-before-send). Crash enumeration: a base run numbers "
    "the durable writes of a target replica; the same deterministic case is re-run with the process killed inside write i (all i in thorough, a sample in quick) x "
    "{applied, not applied}, restarted from the durable state and fed the same / the other proposal of an equivocating leader and stale traffic.",
    assumptions=_SIM_ASSUME + ["crash points = durable-write calls (set_state, queue_next_block) of the executed scenarios; scenarios themselves are sampled"],
    stages=[dict(name="sim-crash", flavour="release", **SIM)],
    floors={"quick": {"crash_points_exercised": 200, "crash_with_write_applied": 80, "crash_with_write_not_applied": 80, "commit_votes_checked": 2000, "timeout_votes_checked": 2000},
            "thorough": {"crash_points_exercised": 400}},
)

PROPS["C05"] = dict(
    title="View changes are justified, monotone and follow the specification",
    level="exploration",
    technique="runtime monitoring: invariant and monotonicity checkers on replica snapshots and durable states, isolation re-verification of every certificate held or emitted, self-justification checker on every outbound message",
    explanation="In the replica simulator (see C01) the read-only observer delivers a snapshot after every step of every replica. Checked on every snapshot and "
    "every durable state: view = 0 with no certificate or view = 1 + max(view of highest commit / timeout certificate) (a replica is never ahead of nor behind the "
    "newest certificate it holds, i.e. every view change is backed by a certificate for the preceding view); view and both certificate views never decrease within "
    "an incarnation nor across restarts; every certificate held verifies in isolation with the harness' own verify call. Checked on every emitted message: signature "
    "valid; new-view carries exactly the higher of the two certificates held (commit on a tie) and it verifies; timeout vote carries exactly the recorded high vote / "
    "high commit certificate; proposal is by the view's leader, its justification verifies, and payload presence follows the re-proposal rule.",
    assumptions=_SIM_ASSUME + ["conformance to spec/informal-spec/replica.rs is checked through these derived invariants and the per-input accept/reject statistics, not by a step-by-step model diff"],
    stages=[dict(name="sim", flavour="release", **SIM)],
    floors={"quick": {"snapshots_checked": 100000, "durable_states_checked": 10000, "view_changes_observed": 3000, "new_views_checked": 3000, "proposals_checked": 500, "timeout_votes_checked": 2000, "restarts": 100},
            "thorough": {"snapshots_checked": 300000}},
)

PROPS["C06"] = dict(
    title="Progress: after the network heals, new blocks are committed",
    level="exploration",
    technique="runtime monitoring in virtual time: bounded-progress checker + fixed-point (deadlock) detector over a fair synchronous suffix after an adversarial prefix",
    explanation="In the replica simulator (see C01) an adversarial prefix (partitions, loss, reordering, Byzantine traffic, hidden commits, crashes) is followed by a fair "
    "synchronous suffix: all correct replicas up, every in-flight message delivered, block sync to fixpoint, and only when nothing is in flight the manual clock advances by "
    "one view timeout. Oracle: every correct node stores a block nobody had before the suffix within 8 + 3 x (longest run of faulty-leader views) timeouts; an unchanged "
    "global state over consecutive rounds is reported as a deadlock regardless of the bound; a replica that stops on its own is a violation. The distribution of timeouts "
    "needed is recorded in the evidence (calibration: max observed on the unchanged tree is far below the bound). The poisoned-laggard prefix cuts off a correct replica that the others need for a quorum, lets the Byzantine validators vote like honest ones so that the rest finalizes blocks, and, as the adversary's last word, hands the isolated replica the newest commit certificate inside a timeout certificate of an old view (old honest timeout votes plus a Byzantine vote whose high certificate is unbounded); everything sent to it during the partition is lost.",
    assumptions=_SIM_ASSUME + ["liveness is decided only in its bounded virtual-time form; real-time liveness under the production scheduler/network is out of reach of this family"],
    stages=[dict(name="sim-heal", flavour="release", **SIM)],
    floors={"quick": {"fair_suffixes_that_progressed": 80, "cases_with_commits": 80}, "thorough": {"fair_suffixes_that_progressed": 150}},
)

CONC = dict(crate="conc")
_SMALL = {"small": 1}

PROPS["C17"] = dict(
    title="Task scopes join every task, report a first failure and cancel the rest",
    level="exploration",
    technique="runtime monitoring: offline event-log checker (join, result, first failure, cancellation) over generated scope programs on racy runtimes, plus Miri (many seeds), ThreadSanitizer and AddressSanitizer on the same workload",
    explanation="Random scope programs (up to 40 tasks: main/background x async/blocking, tasks spawning tasks, nested scopes, yields, waits for cancellation incl. in "
    "timeout child contexts, Ok/Err/panic outcomes, caller cancellation and deadlines) run on the real scope::run! - on a current-thread runtime with paused clock "
    "(deterministic; a scope that never returns is detected in virtual time) and on multi-thread runtimes with 2-8 workers (racy). A log with one sequence counter is "
    "checked: every started task ended before its scopes returned; result = root value / an error some task returned that is not provably later than another / re-raised "
    "panic; every nested scope (scope::run! inside an async task, scope::run_blocking! with a blocking root inside a blocking task) returned its root's value or the error of one of its own tasks; "
    "a JoinHandle::join returned a value only for a task that had finished successfully (that task's value) and Canceled only after a cancellation trigger; cancellation observed only after a trigger, and every waiter released. Every task writes a cell borrowed from the caller's frame as its last action, so an "
    "early return is a use-after-free: the same binary runs under Miri (-Zmiri-seed per shard varies the schedule), ThreadSanitizer (-Zbuild-std) and AddressSanitizer, "
    "where any report fails the run. Deadline scenarios on manual clocks: a caller context with a 10 s deadline (inherited or tightened to 5 s; on the root's clock or on an independent clock of its own) runs a scope whose root task, background task and nested scopes wait for cancellation; one clock is advanced by 3 / 7 / 11 s and the scope must return iff a deadline has passed on the caller's own clock or on an ancestor's.",
    assumptions=["tokio is trusted; a clean Miri/TSan/ASan run means no report on the reached code, not memory safety", "held on the generated programs and observed interleavings only"],
    stages=[
        dict(name="native", flavour="release", **CONC),
        dict(name="miri", flavour="miri", args=_SMALL, shards=16, **CONC, watchdog_s={"quick": 1500, "thorough": 5400}),
        dict(name="tsan", flavour="tsan", args={"programs": 60}, shards=8, tiers=["thorough"], **CONC),
        dict(name="asan", flavour="asan", args={"programs": 60}, shards=8, tiers=["thorough"], **CONC),
    ],
    floors={"quick": {"executions_multi_thread": 5000, "executions_current_thread_virtual_time": 2000, "executions_with_panic": 1000, "executions_with_competing_errors": 1000,
                      "executions_with_caller_cancel": 1000, "executions_with_caller_deadline": 300, "executions_with_nested_scope": 1000, "cancellations_observed": 5000, "joins_that_returned_the_task_value": 1000, "joins_that_returned_canceled": 100, "nested_scope_results_checked": 1000, "run_blocking_scopes_executed": 200},
            "thorough": {"executions_multi_thread": 100000}},
)

PROPS["C15"] = dict(
    title="Rate and concurrency limits are enforced on every RPC stream",
    level="exploration",
    technique="runtime monitoring on a manual clock: sliding-window checker over all pairs of grants, arrival-order checker, differential run for cancelled waits; Miri/TSan on the same workload",
    explanation="(a) Operation sequences (acquire(k) for k in 0..burst+1 with hold times, cancellation of pending acquires, clock advances of 1 ns / r-1 / r / many r) run on the real "
    "limiter::Limiter with a manual clock; every window between two grants is checked against burst + T/r + 1, grants against arrival order, k > burst never grants, "
    "refresh 0 grants immediately, every satisfiable caller is eventually served, and a phase of only-cancelled waits must leave the limiter granting exactly like one that "
    "never saw them. A multi-thread stress variant checks the window bound with real time. (b) The real rpc::Service (ping server + consensus server with a generated rate, INFLIGHT 3; through the verif facade) runs over the scripted transport on a manual clock against "
    "(i) the real client code with an infinite rate firing 5-40 calls at once and (ii) a raw mux peer written in the harness that re-opens every stream and sends a valid request as fast as the "
    "wire allows without ever reading; a probe handler logs start/end in manual-clock time: starts in every window <= burst + T/r + 1, concurrently running handlers <= INFLIGHT (and the "
    "limit is actually reached). (c, node-limits) A real node (testonly::Instance: production Network runner, gossip run_stream and consensus run_inbound_stream with the per-connection rpc::Service glue and "
    "the configured rates; every RPC kind gets its own burst/refresh pair) runs on a manual clock and is flooded over real sockets by an authenticated raw gossip peer (get_block, push_block_store_state, "
    "push_validator_addrs) and by a committee member on the validator network (consensus messages and pings, whose rate is the fixed rpc::ping::RATE), 25-60 concurrent calls per kind with no client-side rate. Time only moves when the harness moves it, so the "
    "statement's bound is decided exactly: after a total advance A at most burst + A/refresh + 1 requests of a kind may have been served on that connection (gossip kinds counted by their responses, consensus "
    "requests where the node hands them to the consensus component, whose acknowledgements the harness withholds: at most INFLIGHT may be in flight).",
    assumptions=["held on the generated operation sequences only", "the multi-thread variant stamps grants after the fact and allows 5 ms of stamping delay", "node-limits: real sockets; a case that hits its 120 s wall-clock watchdog is inconclusive, counts are upper bounds that no scheduling delay can falsify"],
    stages=[
        dict(name="limiter-native", flavour="release", **CONC),
        dict(name="limiter-miri", flavour="miri", args={"small": 1, "cases": 2}, shards=8, tiers=["thorough"], **CONC),
        dict(name="rpc", flavour="release", crate="net"),
        dict(name="node-limits", flavour="release", args={"mode": "node-limits"}, crate="net"),
    ],
    floors={"quick": {"node_limit_cases": 60, "node_phases_completed": 50, "node_limit_reached_get_block": 30, "node_limit_reached_push_block_store_state": 30, "node_limit_reached_push_validator_addrs": 30, "node_limit_reached_consensus": 30, "node_limit_reached_ping": 30, "node_consensus_inflight_limit_reached": 20, "windows_checked": 100000, "cancelled_waits_observed": 5000, "differential_cancel_cases": 2000, "fifo_sequences_checked": 2000, "oversized_requests_checked": 1000, "infinite_rate_requests_checked": 1000, "handler_invocations": 3000, "rpc_windows_checked": 50000, "rpc_raw_client_cases": 100, "max_concurrent_handlers": 3},
            "thorough": {"windows_checked": 1000000}},
)

PROPS["C16"] = dict(
    title="Pending consensus input stays bounded and always keeps the freshest vote",
    level="exploration",
    technique="runtime monitoring: sequential reference-queue diff + linearizability check of small concurrent histories on the real inbound queue; cache-size bound checker on replica snapshots under a flood of future-view votes",
    explanation="(a) The queue returned by bft::create_input_channel() (real signature filter and selection function) is driven with genuinely signed messages of 3 senders x 4 kinds x "
    "views 0-5 (some with signatures that do not verify): sequential send/recv histories are diffed after every operation against a reference queue written from the statement; "
    "concurrent histories (2-4 sender threads + consumer, <= 13 operations, call/return stamps from one counter) are checked for linearizability by exhaustive search, plus "
    "search-free invariants (one pending per sender and kind, nothing invented/invalid). The generic prunable queue is additionally run under Miri and ThreadSanitizer. "
    "(b) In the replica simulator Byzantine validators (<= f) and replays flood correct replicas with validly signed votes for thousands of future views; every snapshot must keep "
    "commit_views/timeout_views/timeout_qcs caches <= n, commit_qcs views <= n and entries <= n^2.",
    assumptions=_SIM_ASSUME,
    stages=[
        dict(name="channel", flavour="release", args={"mode": "channel"}, **SIM),
        dict(name="flood", flavour="release", **SIM),
        dict(name="generic-queue", flavour="release", **CONC),
        dict(name="generic-queue-miri", flavour="miri", args=_SMALL, shards=8, tiers=["thorough"], **CONC),
        dict(name="generic-queue-tsan", flavour="tsan", args=_SMALL, shards=4, tiers=["thorough"], **CONC),
    ],
    floors={"quick": {"sequential_recvs_checked": 20000, "linearizability_checks": 500, "sends_with_bad_signature": 500, "byz_byz-future-votes": 1000, "snapshots_checked": 50000},
            "thorough": {"linearizability_checks": 10000}},
)

PROPS["C08"] = dict(
    title="The block store is a verified, gap-free, append-only chain",
    level="exploration",
    technique="runtime monitoring: offline checker over the storage hand-off log + invariant and read-back probes running concurrently with a stress workload on the real EngineManager",
    explanation="A certified chain of 110-260 blocks (with pre-genesis blocks, a second validly certified fork and 40 invalid variants: payload/hash mismatch, bad or sub-quorum "
    "certificate, unknown epoch, pre-genesis number at/after the first block, wrong pre-genesis content) is offered by 4-12 concurrent submitters (in order, ahead, behind, "
    "duplicated) to the real EngineManager/EngineManagerRunner over a harness EngineInterface whose persistence is immediate / stalled for whole phases (far beyond the 100-block "
    "cache) / failing / jumping ahead through a side channel / pruned, over 2-4 manager incarnations per case, on current-thread and multi-thread runtimes. Checked: every block "
    "handed to storage follows the previous hand-off or the durable head, is one of the verified blocks, one payload per number; persisted within queued, neither range shrinks; any "
    "number inside the queued range reads back (same payload forever) unless pruned meanwhile; an invalid block is never acknowledged; the whole chain is durable at quiescence. Every third case uses rotating committees: the genesis has no static schedule, the chain is certified by 2-4 successive committees of equal size (own keys and weights, view numbers restarting per epoch), and the harness execution layer reports the schedule in force and announces the next one as pending some blocks before it takes over; besides the usual invalid variants, blocks certified by the committee of another epoch and genuine certificates re-labelled with another known epoch must be refused, across manager restarts in any epoch. (node-gossip) A real node (testonly::Instance: production Network runner, block fetcher, fetch queue, gossip run_stream, validator-network dialler over a real EngineManager with an empty store) is surrounded by 2-4 raw gossip peers that announce ranges of a certified chain, answer get_block honestly or with lies (wrong number, altered payload, broken certificate, nothing, no answer), reconnect after being dropped and push genuine / forged / non-member address announcements pointing at harness listeners; here: every block the node stores is read back and compared with the certified chain; the peers also ask the NODE for blocks (mostly inside the range the node itself announced to them on that connection): a served block must be the certified one, an announced block must be served, and every store state the node announces must end in the certified block of that number.",
    assumptions=["the harness EngineInterface (storage) is the trusted base", "held on the generated interleavings only"],
    stages=[dict(name="engine-stress", flavour="release", crate="eng"), dict(name="node-gossip", flavour="release", args={"mode": "node-gossip"}, crate="net")],
    floors={"quick": {"queue_next_block_calls": 5000, "read_backs": 20000, "max_queued_minus_persisted": 101, "side_channel_jumps": 10, "prunes": 10, "storage_failures_injected": 10, "manager_incarnations": 100, "accepted_fork": 50, "cases_with_rotating_committees": 20, "refused_certified-by-the-committee-of-another-epoch": 500, "refused_certificate-relabelled-with-another-epoch": 500, "node_synced_whole_chain": 60, "lying_answers_given": 100, "blocks_served_by_the_node": 300, "store_states_announced_by_the_node": 1000},
            "thorough": {"queue_next_block_calls": 100000, "max_queued_minus_persisted": 101}},
)

NET = dict(crate="net")

PROPS["C13"] = dict(
    title="The encrypted transport delivers exactly the bytes written, or fails",
    level="fault_enumeration",
    technique="runtime monitoring with tamper-point enumeration: byte-stream equality / correct-prefix oracle and wire-frame checker on real noise sessions over a scripted transport",
    explanation="Real noise client/server streams (network crate, through the verif facade) run over an in-memory scripted transport: write sizes from {1,2,15,16,17,65518,65519,65520,"
    "65535,200000,random} with random flush placement, read/write chunk caps {1,2,3,7,100,65536..65538,unlimited}, Pending injections, partial writes, bounded buffering "
    "(back-pressure) and a stalling reader. Clean sessions: reader bytes == writer bytes (self-identifying content), EOF only after shutdown, the ciphertext parses as "
    "<u16 len><len bytes> frames. For every clean session the data frames are then tampered one point at a time in fresh sessions with the same plan: bit flips in the length "
    "field / first / middle / last ciphertext byte / auth tag, truncation at each of those positions, dropped, duplicated, swapped and replayed frames; the reader's bytes must be a "
    "prefix of the writer's followed by an error or EOF. Deadlocks are decided in virtual time. The writer is the noise initiator or the responder (which is in transport mode the moment it has written its handshake message), "
    "waits for the reader's handshake or starts writing at once, and the reader's transport may answer its first read polls with Pending, so that the responder's handshake message and its first data frames arrive coalesced in one read.",
    assumptions=["snow (Noise implementation) and ChaChaPoly are trusted", "tamper points are enumerated per executed session (all frames in thorough, first/middle/last in quick); sessions are sampled"],
    stages=[dict(name="noise", flavour="release", **NET)],
    floors={"quick": {"clean_sessions": 400, "tampered_sessions": 4000, "tamper_detected_by_reader": 3500, "sessions_with_back_pressure": 100, "sessions_with_maximal_frame": 100, "tamper_SwapWithNext": 50, "tamper_Replay": 50, "sessions_written_by_the_responder": 200, "sessions_responder_writes_before_the_initiator_finished_its_handshake": 50},
            "thorough": {"tampered_sessions": 100000}},
)

PROPS["C14"] = dict(
    title="Multiplexed streams are isolated, ordered and flow-controlled",
    level="exploration",
    technique="runtime monitoring: per-substream exactly-once/in-order/no-crosstalk checker with self-identifying payloads, open-stream counter, un-consumed-bytes bound against a flooding raw peer",
    explanation="(pair) Two real multiplexers (network crate, through the verif facade) over the scripted transport (chunk caps, Pending injections, bounded buffering) with 2-4 "
    "capabilities and random limit pairs incl. 0 and mismatched; up to 5 clients per capability open transient streams, write 8 B - 320 kB of 8-byte words that encode (direction, "
    "capability, stream serial, index) in random piece sizes with random flushes, close the write half and read the response to end of stream; servers read in random chunk sizes, "
    "sometimes drop early, respond and close. Checked per stream: bytes received == bytes sent (complete, in order, once), no foreign word ever, end-of-stream only after the counterpart "
    "closed, concurrently open streams <= min(local, peer limit), nothing opens with limit 0; a virtual-time deadlock is a violation. (flood) a raw peer written in the harness completes "
    "the mux handshake, opens a stream and floods 3 MB of DATA without ever reading while the application never consumes: bytes pulled from the transport must stay within "
    "read_buffer_size + one frame + headers. A quarter of the stream queues have a finite local OPEN rate (burst 1-3): the limiter is local and must not influence how stream ids are partitioned.",
    assumptions=["held on the generated interleavings (deterministic current-thread runtime; schedule diversity comes from the transport script and task plans)"],
    stages=[dict(name="mux", flavour="release", **NET)],
    floors={"quick": {"transient_streams_completed": 3000, "capabilities_that_reached_their_stream_limit": 200, "capabilities_with_mismatched_limits": 200, "capabilities_with_zero_limit": 50, "flood_with_open_cases": 100, "connections_with_streams_in_both_directions": 100},
            "thorough": {"transient_streams_completed": 100000}},
)

PROPS["C18"] = dict(
    title="The validator address book holds only authentic, newest announcements",
    level="exploration",
    technique="runtime monitoring: reference address book diff + invariant checker (authentic, member, strictly newer, all-or-nothing) after every batch; order-independence differential",
    explanation="The real ValidatorAddrsWatch (through the verif facade) receives generated batches for committees of 1-8: valid announcements with versions in {0,1,2,3,MAX-1,MAX} and "
    "timestamps incl. negative (60 % of the addresses come from a pool of three, so newer announcements often repeat the stored address), forged (signed by another key, address altered after signing, version raised after signing), non-members, duplicate keys inside a batch, forged entries "
    "placed after valid ones, stale-but-forged entries. After every batch: accept/reject equals the reference written from the statement, a rejected batch leaves the book identical, "
    "the book equals the reference book, every stored entry verifies under its key, belongs to a member, and per key (version, timestamp) never goes back. Order independence: four books "
    "fed the same tie-free valid announcements in different orders and batchings must be equal. (node-gossip) A real node (testonly::Instance: production Network runner, block fetcher, fetch queue, gossip run_stream, validator-network dialler over a real EngineManager with an empty store) is surrounded by 2-4 raw gossip peers that announce ranges of a certified chain, answer get_block honestly or with lies (wrong number, altered payload, broken certificate, nothing, no answer), reconnect after being dropped and push genuine / forged / non-member address announcements pointing at harness listeners; here: every address the node dials (TCP accept on the announced listener) and every announcement it gossips on must be genuinely signed by a committee member, and per validator the dialled address only moves to a strictly newer announcement.",
    assumptions=["BLS signature verification is trusted", "held on the generated batches only"],
    stages=[dict(name="address-book", flavour="release", **NET), dict(name="node-gossip", flavour="release", args={"mode": "node-gossip"}, crate="net")],
    floors={"quick": {"batches_accepted": 1000, "batches_rejected": 1000, "batches_with_duplicate_key": 300, "entries_forged-signature-by-other-key": 500, "entries_non-member": 500, "order_independence_cases": 300, "newer_announcements_repeating_the_stored_address": 300, "stored_entries_checked": 5000, "dials_observed": 100, "address_entries_gossiped_by_the_node": 500},
            "thorough": {"batches_accepted": 50000}},
)

PROPS["C19"] = dict(
    title="Block fetch requests are never lost and go only to peers that have the block",
    level="exploration",
    technique="runtime monitoring: per-block event-log checker (single holder, lowest first, only announced, success/cancel outcome, no loss at quiescence decided in virtual time)",
    explanation="The real gossip fetch queue (through the verif facade) is driven by 1-30 requesters of distinct block numbers (20 % give up after a few steps), 1-6 peer workers that "
    "announce changing ranges inside their own band, accept, and then succeed / fail / disconnect, followed by a phase in which every peer announces everything and always succeeds. "
    "The event log is checked per block: one holder at a time; the accepting peer had announced the block; no lower block was waiting during the whole accept call; a request returns Ok "
    "only after a success and Canceled only if its requester gave up; a failed hand-out is offered again; at the end every remaining request returns (a virtual-time deadlock is a lost "
    "request). Before that phase the deterministic scenarios wait for quiescence (event log unchanged for 100 scheduler rounds) and check that the lowest requested block is not one an "
    "idle peer (inside accept_block) has announced: such a request is starving (lost wake-up), not waiting. 75 % of the scenarios run on a deterministic current-thread runtime, 25 % on 4 worker threads. (node-gossip) A real node (testonly::Instance: production Network runner, block fetcher, fetch queue, gossip run_stream, validator-network dialler over a real EngineManager with an empty store) is surrounded by 2-4 raw gossip peers that announce ranges of a certified chain, answer get_block honestly or with lies (wrong number, altered payload, broken certificate, nothing, no answer), reconnect after being dropped and push genuine / forged / non-member address announcements pointing at harness listeners; here: every get_block request observed at a peer must be for a block inside a range that peer announced on that very connection, and with one honest peer announcing everything the node must end up with the whole chain (if it stops asking for 20 s while an honest peer is connected and blocks are missing, a request was lost; a slow run is inconclusive).",
    assumptions=["concurrent requests for the same number are documented as unsupported and never issued", "held on the generated interleavings only"],
    stages=[dict(name="fetch-queue", flavour="release", **NET), dict(name="node-gossip", flavour="release", args={"mode": "node-gossip"}, crate="net")],
    floors={"quick": {"accepts_checked": 20000, "failed_requests_accepted_again": 5000, "requests_cancelled": 2000, "requests_completed": 15000, "scenarios_multi_thread": 300, "quiescence_probes": 5000, "get_block_requests_observed_at_peers": 2000, "node_synced_whole_chain": 60, "peer_reconnections_after_a_disconnect": 50},
            "thorough": {"accepts_checked": 500000}},
)

PROPS["C12"] = dict(
    title="Connections are admitted only for authenticated, expected, unique peers",
    level="exploration",
    technique="runtime monitoring: admission oracle over adversarial handshake transcripts on real localhost sessions; reference pool diff + invariant probes under concurrency; served-interval monitor (ping probes) over hostile connect/duplicate/close schedules against a real node",
    explanation="(handshake) Real localhost sessions (TCP + noise + preface through the verif facade): the victim runs the real gossip / consensus handshake::inbound or ::outbound "
    "while the peer, written in the harness and owning every key but judged by ground truth, speaks one transcript: honest; a frame recorded on an earlier session replayed; a man in the "
    "middle that terminates noise towards the honest dialler and forwards its frame verbatim; a signature by another key over the right session id; the right key over a flipped / "
    "truncated / extended session id; wrong genesis; truncated and empty frames; outbound: a genuine handshake of another identity than the dialled one. Any admission other than the "
    "honest one is a violation, and the honest one must be admitted as the right identity. In every third round the claimed / dialled identity is the victim's OWN one (the loopback connection a validator "
    "keeps to itself): the same transcripts, plus, for the validator network's loopback dial, a remote end that signs nothing and echoes the dialler's own handshake frame (known finding F9: accepted). Membership of the validator network is enforced by the pool (limit 0), covered below. "
    "(pool) PoolWatch (through the verif facade): random insert/remove sequences are diffed against a set + quota reference after every operation, the non-configured quota is "
    "never exceeded and not leaked (after all removes exactly `limit` fresh identities fit); 16 concurrent tasks on few keys with the invariants probed after every operation. "
    "(node) A real node (testonly::Instance: the production Network runner with its listener, preface, handshakes, both pools and RPC services) is attacked by raw peers holding 2-5 gossip "
    "identities (some configured as static peers) and 2-4 validator identities (committee members and outsiders) in a random schedule of connect / duplicate connect / close / pause / probe; "
    "every kept connection is probed with the ping RPC and is certainly served during [first successful response, last successful request]. Upper bounds only, hence sound under any timing: "
    "two connections of one identity on one network are never served at the same time, connections of non-configured identities served at one instant never exceed dynamic_inbound_limit, an "
    "outsider key is never served on the validator network. In 30 % of the node cases the node is a standby validator (its validator key is not in the committee): its validator network must still admit committee members only.",
    assumptions=["held on the generated transcripts / sequences only", "node stage: real sockets and the real clock; a case that hits its 120 s wall-clock watchdog is inconclusive, never a verdict"],
    stages=[dict(name="pool", flavour="release", args={"mode": "pool"}, **NET), dict(name="handshake", flavour="release", args={"mode": "handshake"}, **NET),
            dict(name="node-admission", flavour="release", args={"mode": "node"}, **NET)],
    floors={"quick": {"honest_admissions": 1000, "adversarial_transcripts_refused": 8000, "inbound_Gossip_relayed-by-mitm": 200, "inbound_Consensus_replayed-from-other-session": 200, "outbound_Gossip_other-identity": 200, "loopback_outbound_Consensus_signed-by-other-key": 100, "loopback_outbound_Consensus_honest": 100, "loopback_outbound_Consensus_reflected-own-frame": 100, "loopback_inbound_Consensus_signed-by-other-key": 100, "pool_inserts_accepted": 20000, "pool_inserts_refused": 20000, "quota_leak_probes": 3000, "pool_concurrent_rounds": 30,
                      "node_cases": 100, "gossip_connections_served": 100, "validator_connections_served": 40, "repeat_connections_of_an_identity": 200, "outsider_validator_connections_attempted": 40},
            "thorough": {"pool_inserts_accepted": 500000}},
)

PROPS["C10"] = dict(
    title="No input from the network can crash a node",
    level="exploration",
    technique="runtime monitoring: panic / abort / allocation monitor (catch_unwind per case, subprocess per shard, counting global allocator) under a byte-level adversary at every protocol stage, plus well-signed absurd consensus messages into real replicas",
    explanation="L0: every message decoder (22 public types and the 14 crate-private network messages through the verif facade) is fed random bytes, mutations of valid encodings (bit flips, "
    "truncation, overlong varints, duplicated slices, splices) and structurally valid protobufs with extreme field values generated from the descriptors (0/1/MAX/MIN integers, "
    "1_000_000_000 nanos, byte strings of every interesting length, missing/repeated fields), in the production-like and the overflow-checked flavour. L1: length-prefixed frames with "
    "announced lengths 0/max/max+1/u32::MAX and short bodies. L2: garbage noise handshake messages in both roles. L4: after a valid mux handshake every one of the 65536 frame headers in "
    "2-4 connection states. L5: a raw mux peer sends the real rpc::Service request frames announcing 0 / max / max+1 / 2^30 / u32::MAX bytes and malformed bodies. L4b (mux-flood): after a valid mux handshake a raw peer floods DATA, OPEN and CLOSE frames (towards the accept side and towards an idle connect side) and never reads, while the application consumes nothing; the bytes the multiplexer pulled from the transport must stay within read_buffer_size + read_frame_size + per-frame overhead for read_frame_count frames. L7 (node-absurd): a real node (testonly::Instance over a real EngineManager) is attacked by an honestly authenticated raw gossip peer with well-formed absurd RPCs - block-store states, get_block numbers and address announcements at the edges of their domains (0, u64::MAX, certificates of unknown blocks, forged signatures), empty answers to the node's own get_block calls, hanging up mid-way; no panic in the process, and a fresh honest connection is served after every hostile session. L6: Byzantine validators send well-signed absurd consensus messages (view/block numbers at u64::MAX, bitmaps of wrong length, empty certificates) into real "
    "replicas of the simulator. Oracle: no panic, no abort, the entry point returns, peak allocation stays within 64 x input + 1 MB; a replica that stops on its own is a violation.",
    assumptions=["held on the generated inputs only (decoder stage: thousands of inputs per type; mux header stage: exhaustive per connection state)", "the L3 preface stage shares its framing with L1 and is exercised by the C12 workload"],
    stages=[
        dict(name="decoders", flavour="release", args={"mode": "decoders"}, abort_is_violation=True, **NET),
        dict(name="decoders-checked", flavour="checked", args={"mode": "decoders"}, abort_is_violation=True, **NET),
        dict(name="frames", flavour="release", args={"mode": "frames"}, shards=4, abort_is_violation=True, **NET),
        dict(name="mux-headers", flavour="release", args={"mode": "mux-headers"}, abort_is_violation=True, **NET),
        dict(name="mux-flood", flavour="release", args={"mode": "mux-flood"}, abort_is_violation=True, **NET),
        dict(name="node-absurd", flavour="release", args={"mode": "node-absurd"}, abort_is_violation=True, **NET),
        dict(name="absurd-messages", flavour="release", abort_is_violation=True, args={"steps": 900}, **SIM),
        dict(name="absurd-messages-checked", flavour="checked", abort_is_violation=True, args={"steps": 900}, **SIM),
    ],
    floors={"quick": {"decode_inputs_structured-extremes": 100000, "decode_inputs_mutated-valid": 100000, "decoder_kinds": 36, "mux_headers_probed": 131072, "frame_inputs": 1000, "rpc_request_inputs": 500, "byz_byz-absurd": 300, "flood_of_control_frames_cases": 200, "hostile_sessions": 200, "absurd_block_store_states": 500, "node_still_serving_after_hostile_session": 200},
            "thorough": {"mux_headers_probed": 262144}},
)
