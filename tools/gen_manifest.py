#!/usr/bin/env python3
"""Generates /verif/MANIFEST.json from lib/props.py (single source of truth for the checks)."""
import json, os, sys
ROOT = os.path.dirname(os.path.dirname(os.path.abspath(__file__)))
sys.path.insert(0, os.path.join(ROOT, "lib"))
from props import PROPS, NOT_APPLICABLE, HOOK_COMMITS  # noqa

ids = [json.loads(l)["id"] for l in open(os.path.join(ROOT, "properties.jsonl"))]
checks = []
for pid in ids:
    if pid not in PROPS:
        continue
    s = PROPS[pid]
    checks.append(dict(
        property_id=pid,
        quick_cmd=f"./check run {pid} --tier quick",
        thorough_cmd=f"./check run {pid} --tier thorough",
        evidence_file=f"/verif/evidence/{pid}.json",
        replay_cmd_template="./check replay {path}",
        engine=s.get("engine", "harness"),
        level_claimed=dict(category=s["level"], text=s["explanation"], design_ref=f"DESIGN.md section 4, {pid}"),
        level_note="; ".join(s["assumptions"]),
        technique=s["technique"],
    ))
na = [dict(property_id=p, reason=NOT_APPLICABLE.get(p, "monitor not built yet in this revision (see DESIGN.md section 4 for the planned monitor)")) for p in ids if p not in PROPS]
m = dict(
    version=1,
    setup_cmd="./check setup",
    hooks=dict(
        guard="verif",
        enable="cargo feature `verif` of zksync_consensus_bft and zksync_consensus_network (enabled by the harness workspace /verif/harness through its path dependencies)",
        baseline_off_cmd="cd /repo/node && cargo nextest run --workspace --no-fail-fast --test-threads 8 --offline || cargo test --workspace --no-fail-fast --offline",
        source_commits=HOOK_COMMITS,
        add_only=True,
    ),
    engines=[
        dict(name="E1-sim", path="harness/sim", serves_properties=[p for p in ["C01","C02","C03","C05","C06","C16","C10"] if p in PROPS], kind_free_text="replica simulator driving the real bft::Config::run with harness-owned network, storage, clock, Byzantine validators and crashes; online monitors"),
        dict(name="E2-pure", path="harness/e2", serves_properties=[p for p in ["C02","C04","C07","C09","C11"] if p in PROPS], kind_free_text="generated inputs -> real function -> independent oracle, panics caught per call"),
        dict(name="E3-engine", path="harness/eng", serves_properties=[p for p in ["C08"] if p in PROPS], kind_free_text="EngineManager stress with a monitoring EngineInterface"),
        dict(name="E4-net", path="harness/net", serves_properties=[p for p in ["C10","C12","C13","C14","C15","C18","C19"] if p in PROPS], kind_free_text="network adversaries over scripted transports through the cfg-guarded facade"),
        dict(name="E5-conc", path="harness/conc", serves_properties=[p for p in ["C15","C16","C17"] if p in PROPS], kind_free_text="concurrency workloads, native + Miri + TSan + ASan"),
    ],
    checks=checks,
    notes="Technique family: runtime monitoring and sanitizers. Every check runs the real code of /repo (path dependencies, rebuilt from the working tree) under generated/hostile workloads with oracles written for this code base; verdicts are three-valued (exit 0 held / 1 violated / 2 inconclusive). See DESIGN.md.",
    not_applicable=na,
)
json.dump(m, open(os.path.join(ROOT, "MANIFEST.json"), "w"), indent=1)
print("checks:", [c["property_id"] for c in checks], "not_applicable:", [n["property_id"] for n in na])
