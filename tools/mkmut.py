#!/usr/bin/env python3
"""mkmut.py <name> <file> <old> <new> : creates /verif/tools/mutants/<name>.diff by replacing <old> with <new> once in /repo/<file>."""
import subprocess, sys
name, f, old, new = sys.argv[1:5]
p = '/repo/' + f
s = open(p).read()
assert s.count(old) >= 1, f"pattern not found in {f}: {old!r}"
s = s.replace(old, new, 1)
open(p, 'w').write(s)
d = subprocess.run(['git', '-C', '/repo', 'diff'], capture_output=True, text=True).stdout
open(f'/verif/tools/mutants/{name}.diff', 'w').write(d)
subprocess.run(['git', '-C', '/repo', 'checkout', '--', '.'])
print(name, len(d.splitlines()), 'lines')
