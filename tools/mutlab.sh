#!/bin/bash
# Isolated mutation lab: a scratch worktree of /repo and a copy of the /verif machinery whose path dependencies point at it,
# so that mutants can be tried while /repo and /verif/harness are being worked on.
#   mutlab.sh sync                      (re)create/refresh /tmp/mut/{repo,verif} from the current /repo HEAD and /verif working tree
#   mutlab.sh try <patch|sed:..> <PROP> [tier]
#   mutlab.sh batch <glob-prefix> [tier]   (tools/mutants/<prefix>*.diff, PROP = file name up to the first '-')
#   mutlab.sh clean
set -u
L=/tmp/mut
case "$1" in
sync)
  mkdir -p $L
  if [ ! -d $L/repo ]; then git -C /repo worktree add --detach -q $L/repo HEAD; else git -C $L/repo checkout -q --detach $(git -C /repo rev-parse HEAD) && git -C $L/repo checkout -q -- . ; fi
  mkdir -p $L/verif
  rsync -a --delete --exclude 'harness/target*' --exclude work --exclude replays --exclude evidence --exclude .git --exclude seeded /verif/ $L/verif/
  sed -i "s#\"/repo/node#\"$L/repo/node#g" $L/verif/harness/Cargo.toml
  sed -i "s#/repo/node/Cargo.lock#$L/repo/node/Cargo.lock#" $L/verif/check
  echo "synced: repo $(git -C $L/repo rev-parse --short HEAD)"
  ;;
try)
  M=$2; P=$3; T=${4:-quick}
  cd $L/repo && git checkout -q -- .
  if [[ "$M" == sed:* ]]; then F=$(echo "$M" | cut -d: -f2); E=$(echo "$M" | cut -d: -f3-); sed -i "$E" "$F"; else git apply "$M" || { echo "patch does not apply"; exit 9; }; fi
  cd $L/verif && ./check run $P --tier $T 2>&1 | sed "s#$L##g" | grep -E 'VIOLATION|KNOWN|INCONCLUSIVE|^\[|signature|detail' | head -${LINES_MAX:-10}
  rc=${PIPESTATUS[0]}
  git -C $L/repo checkout -q -- .
  echo "exit=$rc"
  ;;
batch)
  mkdir -p /verif/work
  for f in /verif/tools/mutants/$2*.diff; do
    n=$(basename $f .diff); p=${n%%-*}
    out=$($0 try $f $p ${3:-quick} 2>&1)
    rc=$(echo "$out" | grep -o 'exit=[0-9]*' | tail -1)
    sig=$(echo "$out" | grep -m2 'signature:' | tr '\n' ' ')
    inc=$(echo "$out" | grep -m1 'INCONCLUSIVE' | cut -c1-160)
    echo "$(date +%H:%M:%S) $n $rc $sig $inc" >> /verif/work/mutlab.log
  done
  echo "batch $2 done" >> /verif/work/mutlab.log
  ;;
clean)
  git -C /repo worktree remove --force $L/repo; rm -rf $L
  ;;
esac
