#!/bin/bash
# usage: try_mutant.sh <patch.diff | "sed:<file>:<expr>"> <PROP> [tier]  - applies a change to /repo, runs the check, reverts.
set -u
M=$1; P=$2; T=${3:-quick}
cd /repo
if [ -n "$(git status --porcelain --untracked-files=no)" ]; then echo "repo dirty, abort"; exit 9; fi
if [[ "$M" == sed:* ]]; then
  F=$(echo "$M" | cut -d: -f2); E=$(echo "$M" | cut -d: -f3-)
  sed -i "$E" "$F"
else
  git apply "$M" || { echo "patch does not apply"; exit 9; }
fi
git diff --stat | tail -1
cd /verif && ./check run $P --tier $T 2>&1 | grep -E 'VIOLATION|KNOWN|INCONCLUSIVE|^\[|signature|detail' | head -${LINES_MAX:-12}
rc=${PIPESTATUS[0]}
git -C /repo checkout -- . 
echo "exit=$rc"
