#!/bin/bash
# usage: tools/coverage.sh <PROP> [<PROP> ...]   - runs the quick tier of the given checks with an instrumented build of the
# release-flavour stages and prints, per anchor file of /repo, the lines of code the workloads never reached.
# Measurement aid only (which code do the monitors' workloads drive?); not part of any registered command.
set -e
cd /verif
SYSROOT=$(rustc +nightly --print sysroot)
LLVM=$(dirname $(find $SYSROOT -name llvm-profdata | head -1))
rm -rf work/cov; mkdir -p work/cov
for P in "$@"; do VERIF_COV=1 ./check run $P --tier quick 2>&1 | tail -1; done
for P in "$@"; do
  ls work/cov/$P-*.profraw >/dev/null 2>&1 || continue
  $LLVM/llvm-profdata merge -sparse work/cov/$P-*.profraw -o work/cov/$P.profdata
  BINS=$(python3 - "$P" <<'PY'
import sys; sys.path.insert(0,'/verif/lib')
from props import PROPS
b=set()
for s in PROPS[sys.argv[1]]['stages']:
    if s.get('flavour','release')=='release': b.add(s.get('bin',s['crate']))
print(' '.join('-object /verif/harness/target-cov/release/'+x for x in b))
PY
)
  $LLVM/llvm-cov export $BINS -instr-profile=work/cov/$P.profdata -format=lcov --ignore-filename-regex='(/root/|/rustc/|/verif/)' > work/cov/$P.lcov 2>/dev/null
  rm -f work/cov/$P-*.profraw
done
