#!/bin/bash
# usage: run_all.sh <tier> [seed]  - runs every registered check once, summary in work/runall-<tier>-<seed>.log
T=${1:-quick}; S=${2:-0}
cd /verif; mkdir -p work
L=work/runall-$T-$S.log; : > $L
for p in $(python3 -c "import json;print(' '.join(c['property_id'] for c in json.load(open('MANIFEST.json'))['checks']))"); do
  VERIF_SEED=$S ./check run $p --tier $T > work/runall-$p.out 2>&1; rc=$?
  echo "$(date +%H:%M:%S) $p rc=$rc $(grep -E '^\[C' work/runall-$p.out | tail -1)" >> $L
  grep -E 'VIOLATION|INCONCLUSIVE|KNOWN' work/runall-$p.out | head -5 >> $L
done
echo done >> $L
