#!/bin/bash
# usage: confirm_seed.sh <tag> "<demo test filter>" "<-p crate for demo>" [suite-scope: --workspace | "-p a -p b"]
# Confirms in the agent's scratch worktree: (1) patch compiles and the existing suite passes, (2) demo fails with patch,
# (3) demo passes without patch. Writes /tmp/seed/out-<tag>/confirm.log
TAG=$1; FILTER=$2; DEMOPKG=$3; SCOPE=${4:---workspace}
D=/tmp/seed/$TAG; O=/tmp/seed/out-$TAG; L=$O/confirm.log
cd $D || exit 9
{
echo "== confirm $TAG $(date)"
git checkout -q -- . ; git clean -fdq -e node/target
git apply $O/patch.diff || { echo "PATCH DOES NOT APPLY"; exit 1; }
cd node
echo "== (1) suite with patch: cargo nextest run $SCOPE"
cargo nextest run $SCOPE --offline --no-fail-fast --test-threads 6 --build-jobs 8 2>&1 | grep -E "^\s+(FAIL|SIGABRT|TIMEOUT)|Summary|error(\[|:)" | sort | uniq | head -30
cd ..
echo "== (2) demo with patch (expect FAIL)"
if [ -f $O/demo.diff ]; then git apply $O/demo.diff || echo "DEMO DOES NOT APPLY"; fi
cd node; cargo nextest run $DEMOPKG --offline --no-fail-fast --build-jobs 8 -E "test(/$FILTER/)" 2>&1 | grep -E "^\s+(PASS|FAIL|SIGABRT)|Summary|error(\[|:)" | head; cd ..
echo "== (3) demo without patch (expect PASS)"
git apply -R $O/patch.diff
cd node; cargo nextest run $DEMOPKG --offline --no-fail-fast --build-jobs 8 -E "test(/$FILTER/)" 2>&1 | grep -E "^\s+(PASS|FAIL|SIGABRT)|Summary|error(\[|:)" | head; cd ..
echo "== done $(date)"
} > $L 2>&1
