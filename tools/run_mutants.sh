#!/bin/bash
# usage: run_mutants.sh <glob-prefix> [tier]  - runs the matching mutants of tools/mutants one after the other; summary in /verif/work/mutants.log
mkdir -p /verif/work
for f in /verif/tools/mutants/$1*.diff; do
  n=$(basename $f .diff); p=${n%%-*}
  out=$(/verif/tools/try_mutant.sh $f $p ${2:-quick} 2>&1)
  rc=$(echo "$out" | grep -o 'exit=[0-9]*' | tail -1)
  sig=$(echo "$out" | grep -m2 'signature:' | tr '\n' ' ')
  echo "$(date +%H:%M:%S) $n $rc $sig" >> /verif/work/mutants.log
done
echo "batch $1 done" >> /verif/work/mutants.log
