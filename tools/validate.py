#!/usr/bin/env python3
"""Validates MANIFEST.json and every evidence file against the schemas (run with python3-vt)."""
import json, jsonschema, glob, sys
m=json.load(open('/verif/MANIFEST.json')); s=json.load(open('/root/.vp/MANIFEST.schema.json'))
jsonschema.validate(m,s); print("manifest ok")
es=json.load(open('/root/.vp/EVIDENCE.schema.json'))
for p in sorted(glob.glob('/verif/evidence/*.json')):
    jsonschema.validate(json.load(open(p)),es); print(p,"ok")
