#!/bin/bash
# usage: keep_seed.sh <tag> <PROP> "<needs>" "<caught by>"  -> copies deliverables into /verif/seeded/<tag>/ and removes the scratch worktree
TAG=$1; PROP=$2; NEEDS=$3; CAUGHT=$4
O=/tmp/seed/out-$TAG; D=/verif/seeded/$TAG
mkdir -p $D
cp $O/patch.diff $D/; [ -f $O/demo.diff ] && cp $O/demo.diff $D/; cp $O/README.md $D/README.agent.md; cp $O/confirm.log $D/confirm.log
python3 - "$TAG" "$PROP" "$NEEDS" "$CAUGHT" <<'PY'
import json,sys
tag,prop,needs,caught=sys.argv[1:5]
log=open(f'/verif/seeded/{tag}/confirm.log').read()
json.dump(dict(id=tag, property=prop, origin="independent sub-agent given only the property text and a scratch worktree", needs_to_manifest=needs,
  confirmed=dict(how="tools/confirm_seed.sh in the scratch worktree: (1) existing suite with the patch (cargo nextest --workspace), (2) demo with patch fails, (3) demo without patch passes", log_excerpt=[l for l in log.splitlines() if 'Summary' in l or 'FAIL' in l or 'PASS' in l or 'SIGABRT' in l][:12]),
  checks=caught), open(f'/verif/seeded/{tag}/meta.json','w'), indent=1)
PY
git -C /repo worktree remove --force /tmp/seed/$TAG && echo "removed worktree $TAG"
