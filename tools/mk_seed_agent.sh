#!/bin/bash
# usage: mk_seed_agent.sh <PROP_ID> <tag>  -> creates scratch worktree /tmp/seed/<tag> and prints the agent prompt
set -e
ID=$1; TAG=$2
D=/tmp/seed/$TAG
mkdir -p /tmp/seed
git -C /repo worktree add --detach -q $D HEAD
mkdir -p /tmp/seed/out-$TAG
PROP=$(grep "\"id\": \"$ID\"" /verif/properties.jsonl || grep "\"id\":\"$ID\"" /verif/properties.jsonl)
cat <<EOF
You are working in a scratch git worktree of the Rust repository matter-labs/era-consensus (ChonkyBFT consensus for zkSync Era) at $D (the cargo workspace root is $D/node). The sandbox has no network: always pass --offline to cargo. Work ONLY inside $D and /tmp/seed/out-$TAG; never touch /repo or /verif (do not even read /verif). Keep machine load moderate: pass -j 6 to cargo, and do not run more than one cargo at a time.

Here is a semantic property that the code base is supposed to satisfy (JSON):

$PROP

YOUR TASK: produce ONE realistic change to the repository's *source code* (not its tests) that BREAKS this property while the code still compiles and the repository's existing test-suite still passes. The change must look like a plausible regression, refactoring slip or "optimisation" a maintainer could make, and it must need something specific in order to manifest - a particular interleaving, a crash or fault at a particular point, a multi-step sequence of operations, an unusual input/boundary value, or two cooperating sites that each look fine alone - NOT something that ordinary use or the existing tests would expose at once. Prefer subtle semantic changes (an off-by-one at a boundary, a flipped comparison on a rarely taken path, a missing check on one path, a reordered pair of operations, a dropped persistence/cleanup step) over crude ones.

Then write a DEMONSTRATION: a new test (or small program) that FAILS with your change and PASSES on the unmodified tree, showing concretely that the property is violated (not merely that behaviour differs).

You must verify all of this yourself:
 1. the changed tree compiles;
 2. the existing tests still pass with the change: run at least the tests of the crates you touched and of the crates that depend on them, e.g. (cd $D/node && cargo test --offline -j 6 -p <crate> ...). If you can afford it run the whole suite: (cd $D/node && cargo nextest run --workspace --offline --no-fail-fast --test-threads 6) (takes about 8-10 minutes). NOTE: the test zksync_consensus_executor::tests::test_validator_rotation fails on the unmodified tree already; ignore it.
 3. your demonstration fails with the change and passes without it (use git stash / git apply -R to check both).

DELIVERABLES, all in /tmp/seed/out-$TAG/ :
 - patch.diff : the source change only (output of git diff for the source files, relative to HEAD, so that it applies with: git -C <repo root> apply patch.diff). It must NOT contain the demonstration.
 - demo.diff (a git diff adding the demonstration test, applying independently of patch.diff) or a stand-alone demo directory, plus the exact command to run it.
 - README.md : what you changed and where; why it breaks the property; what exactly it needs in order to manifest; the commands you ran for 1-3 and their outcomes (pass/fail counts).
Do not commit anything. When finished, leave the worktree with your change applied (uncommitted) and reply with a short summary (which files/lines changed, what it needs to manifest, test results).
EOF
