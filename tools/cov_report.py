#!/usr/bin/env python3
"""usage: cov_report.py <PROP> [--src]  - lines of the property's anchor files never reached by the quick workload (from work/cov/<PROP>.lcov)"""
import json, sys, os
pid = sys.argv[1]
show = "--src" in sys.argv
props = {json.loads(l)["id"]: json.loads(l) for l in open("/verif/properties.jsonl")}
files = ["/repo/" + f for f in props[pid]["anchors"]["files"]]
extra = [a for a in sys.argv[2:] if not a.startswith("--")]
files += ["/repo/" + f for f in extra]
cov = {}
cur = None
for l in open(f"/verif/work/cov/{pid}.lcov"):
    l = l.strip()
    if l.startswith("SF:"):
        cur = cov.setdefault(l[3:], {})
    elif l.startswith("DA:"):
        a, b = l[3:].split(",")[:2]
        cur[int(a)] = max(cur.get(int(a), 0), int(b))
for f in files:
    c = cov.get(f)
    if c is None:
        print(f"== {f}: NOT IN BINARY / never instrumented")
        continue
    src = open(f).read().splitlines()
    # stop at the test module
    unc = sorted(k for k, v in c.items() if v == 0)
    tot = len(c)
    print(f"== {f}: {tot - len(unc)}/{tot} instrumented lines reached")
    # ranges
    rs = []
    for k in unc:
        if rs and k == rs[-1][1] + 1:
            rs[-1][1] = k
        else:
            rs.append([k, k])
    for a, b in rs:
        if show:
            for k in range(a, b + 1):
                print(f"   {k:5d}  {src[k-1] if k-1 < len(src) else ''}")
            print("   -----")
        else:
            print(f"   {a}-{b}: {src[a-1].strip()[:100]}")
