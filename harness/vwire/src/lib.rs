//! Independent protobuf wire parser / re-serialiser used as the C09 oracle.
//! Deliberately does not use zksync_protobuf::proto_fmt (the code under test) nor quick_protobuf;
//! message structure comes from prost_reflect descriptors.
use prost_reflect::{Kind, MessageDescriptor};
use rand::Rng;

#[derive(Clone, Debug, PartialEq)]
pub enum Node {
    Varint(u64),
    I64([u8; 8]),
    I32([u8; 4]),
    Bytes(Vec<u8>),
    Msg(Vec<(u32, Node)>),
}

#[derive(Clone, Copy, PartialEq, Eq, Debug)]
pub enum W {
    Varint,
    I64,
    Len,
    I32,
}

pub fn wire_of(kind: &Kind) -> W {
    match kind {
        Kind::Int32 | Kind::Int64 | Kind::Uint32 | Kind::Uint64 | Kind::Sint32 | Kind::Sint64 | Kind::Bool | Kind::Enum(_) => W::Varint,
        Kind::Fixed64 | Kind::Sfixed64 | Kind::Double => W::I64,
        Kind::Fixed32 | Kind::Sfixed32 | Kind::Float => W::I32,
        Kind::String | Kind::Bytes | Kind::Message(_) => W::Len,
    }
}

fn get_varint(buf: &[u8], pos: &mut usize) -> Result<u64, String> {
    let mut v: u64 = 0;
    for i in 0..10 {
        let b = *buf.get(*pos).ok_or("eof in varint")?;
        *pos += 1;
        v |= ((b & 0x7f) as u64) << (7 * i);
        if b & 0x80 == 0 {
            return Ok(v);
        }
    }
    Err("varint too long".into())
}

pub fn put_varint(out: &mut Vec<u8>, mut v: u64, pad: usize) {
    // `pad` extra continuation bytes make an over-long (but valid) varint
    let mut bytes = vec![];
    loop {
        let b = (v & 0x7f) as u8;
        v >>= 7;
        if v == 0 {
            bytes.push(b);
            break;
        }
        bytes.push(b | 0x80);
    }
    let pad = pad.min(10 - bytes.len());
    if pad > 0 {
        let last = bytes.len() - 1;
        bytes[last] |= 0x80;
        for i in 0..pad {
            bytes.push(if i + 1 == pad { 0x00 } else { 0x80 });
        }
    }
    out.extend(bytes);
}

fn scalar(buf: &[u8], pos: &mut usize, w: W) -> Result<Node, String> {
    Ok(match w {
        W::Varint => Node::Varint(get_varint(buf, pos)?),
        W::I64 => {
            let s = buf.get(*pos..*pos + 8).ok_or("eof i64")?;
            *pos += 8;
            Node::I64(s.try_into().unwrap())
        }
        W::I32 => {
            let s = buf.get(*pos..*pos + 4).ok_or("eof i32")?;
            *pos += 4;
            Node::I32(s.try_into().unwrap())
        }
        W::Len => unreachable!(),
    })
}

/// Parses a serialised message into a tree (fields in wire order, packed scalars expanded).
pub fn parse(buf: &[u8], desc: &MessageDescriptor) -> Result<Vec<(u32, Node)>, String> {
    let mut pos = 0;
    let mut out = vec![];
    while pos < buf.len() {
        let tag = get_varint(buf, &mut pos)?;
        let num = (tag >> 3) as u32;
        let wt = tag & 7;
        let fd = desc.get_field(num).ok_or(format!("unknown field {num}"))?;
        let fw = wire_of(&fd.kind());
        match wt {
            0 | 1 | 5 => {
                let w = match wt { 0 => W::Varint, 1 => W::I64, _ => W::I32 };
                if w != fw {
                    return Err("wire type mismatch".into());
                }
                out.push((num, scalar(buf, &mut pos, w)?));
            }
            2 => {
                let len = get_varint(buf, &mut pos)? as usize;
                let body = buf.get(pos..pos + len).ok_or("eof len")?;
                pos += len;
                match fd.kind() {
                    Kind::Message(d) => out.push((num, Node::Msg(parse(body, &d)?))),
                    Kind::String | Kind::Bytes => out.push((num, Node::Bytes(body.to_vec()))),
                    _ => {
                        // packed scalars
                        let mut p = 0;
                        while p < body.len() {
                            out.push((num, scalar(body, &mut p, fw)?));
                        }
                    }
                }
            }
            _ => return Err("bad wire type".into()),
        }
    }
    Ok(out)
}

fn put_scalar(out: &mut Vec<u8>, n: &Node, pad: usize) {
    match n {
        Node::Varint(v) => put_varint(out, *v, pad),
        Node::I64(b) => out.extend(b),
        Node::I32(b) => out.extend(b),
        _ => unreachable!(),
    }
}

fn wt_of(n: &Node) -> u64 {
    match n {
        Node::Varint(_) => 0,
        Node::I64(_) => 1,
        Node::I32(_) => 5,
        _ => 2,
    }
}

/// The canonical encoding as specified in the header of proto_fmt.rs, implemented independently:
/// ascending field numbers, minimal varints, one TLV per singular scalar, >1 scalar values packed,
/// LEN-typed values one TLV each (in order), nested messages canonical.
pub fn canonical(fields: &[(u32, Node)]) -> Vec<u8> {
    let mut nums: Vec<u32> = fields.iter().map(|f| f.0).collect();
    nums.sort();
    nums.dedup();
    let mut out = vec![];
    for num in nums {
        let vals: Vec<&Node> = fields.iter().filter(|f| f.0 == num).map(|f| &f.1).collect();
        let is_scalar = !matches!(vals[0], Node::Bytes(_) | Node::Msg(_));
        if is_scalar {
            if vals.len() == 1 {
                put_varint(&mut out, ((num as u64) << 3) | wt_of(vals[0]), 0);
                put_scalar(&mut out, vals[0], 0);
            } else {
                let mut body = vec![];
                for v in &vals {
                    put_scalar(&mut body, v, 0);
                }
                put_varint(&mut out, ((num as u64) << 3) | 2, 0);
                put_varint(&mut out, body.len() as u64, 0);
                out.extend(body);
            }
        } else {
            for v in vals {
                let body = match v {
                    Node::Bytes(b) => b.clone(),
                    Node::Msg(f) => canonical(f),
                    _ => unreachable!(),
                };
                put_varint(&mut out, ((num as u64) << 3) | 2, 0);
                put_varint(&mut out, body.len() as u64, 0);
                out.extend(body);
            }
        }
    }
    out
}

#[derive(Clone, Copy, Debug)]
pub struct Style {
    pub shuffle: bool,
    /// 0 = canonical packing, 1 = all unpacked, 2 = packed even single values of repeated fields, 3 = random chunks
    pub packing: u8,
    pub overlong_varints: bool,
}

/// Alternative valid serialisation of the same message: fields in random order at every nesting level
/// (relative order of the values of one field is kept: it is significant for repeated fields),
/// repeated scalars packed / unpacked / split into several packed chunks, optionally over-long varints.
pub fn emit(fields: &[(u32, Node)], desc: &MessageDescriptor, st: Style, rng: &mut impl Rng) -> Vec<u8> {
    // group consecutive values per field into "emission units"
    let mut nums: Vec<u32> = fields.iter().map(|f| f.0).collect();
    nums.sort();
    nums.dedup();
    // units: Vec<(field, encoded bytes)>, per field in order
    let mut per_field: Vec<Vec<Vec<u8>>> = vec![];
    for num in &nums {
        let fd = desc.get_field(*num).unwrap();
        let vals: Vec<&Node> = fields.iter().filter(|f| f.0 == *num).map(|f| &f.1).collect();
        let mut units: Vec<Vec<u8>> = vec![];
        let is_scalar = !matches!(vals[0], Node::Bytes(_) | Node::Msg(_));
        let pad = |rng: &mut dyn rand::RngCore| if st.overlong_varints && rng.gen_bool(0.3) { rng.gen_range(1..4usize) } else { 0 };
        if is_scalar {
            let packable = fd.is_list();
            let mut i = 0;
            while i < vals.len() {
                let chunk = if !packable {
                    0 // unpacked single
                } else {
                    match st.packing {
                        0 => if vals.len() > 1 { vals.len() } else { 0 },
                        1 => 0,
                        2 => vals.len(),
                        _ => if rng.gen_bool(0.5) { 0 } else { rng.gen_range(1..=vals.len() - i) },
                    }
                };
                let mut u = vec![];
                if chunk == 0 {
                    put_varint(&mut u, ((*num as u64) << 3) | wt_of(vals[i]), 0);
                    put_scalar(&mut u, vals[i], pad(rng));
                    i += 1;
                } else {
                    let mut body = vec![];
                    for v in &vals[i..i + chunk] {
                        put_scalar(&mut body, v, pad(rng));
                    }
                    put_varint(&mut u, ((*num as u64) << 3) | 2, 0);
                    put_varint(&mut u, body.len() as u64, 0);
                    u.extend(body);
                    i += chunk;
                }
                units.push(u);
            }
        } else {
            for v in vals {
                let body = match v {
                    Node::Bytes(b) => b.clone(),
                    Node::Msg(f) => {
                        let Kind::Message(d) = fd.kind() else { unreachable!() };
                        emit(f, &d, st, rng)
                    }
                    _ => unreachable!(),
                };
                let mut u = vec![];
                put_varint(&mut u, ((*num as u64) << 3) | 2, 0);
                put_varint(&mut u, body.len() as u64, 0);
                u.extend(body);
                units.push(u);
            }
        }
        units.reverse(); // pop from the end = next in order
        per_field.push(units);
    }
    let mut out = vec![];
    if st.shuffle {
        while !per_field.is_empty() {
            let i = rng.gen_range(0..per_field.len());
            match per_field[i].pop() {
                Some(u) => out.extend(u),
                None => {
                    per_field.swap_remove(i);
                }
            }
        }
    } else {
        for mut f in per_field {
            while let Some(u) = f.pop() {
                out.extend(u);
            }
        }
    }
    out
}

/// Shape of a message: which fields are present at every level (used to count distinct shapes).
pub fn shape(fields: &[(u32, Node)], h: &mut impl std::hash::Hasher) {
    use std::hash::Hash;
    for (n, v) in fields {
        n.hash(h);
        match v {
            Node::Msg(f) => {
                1u8.hash(h);
                shape(f, h);
                2u8.hash(h);
            }
            Node::Bytes(b) => (b.len().min(3)).hash(h),
            Node::Varint(x) => (*x == 0, *x == u64::MAX).hash(h),
            _ => {}
        }
    }
}

/// Descriptor-guided generator of *structurally valid* protobuf trees with extreme field values:
/// every field of the message may be absent, present with an edge value, or (if repeated) present many times.
pub fn extreme_tree(desc: &MessageDescriptor, rng: &mut impl Rng, depth: usize) -> Vec<(u32, Node)> {
    let mut out = vec![];
    for f in desc.fields() {
        let count = if f.is_list() {
            [0usize, 1, 2, 7][rng.gen_range(0..4)]
        } else if rng.gen_bool(0.85) {
            1
        } else {
            0
        };
        for _ in 0..count {
            let node = match f.kind() {
                Kind::Message(d) => {
                    if depth == 0 {
                        Node::Msg(vec![])
                    } else {
                        Node::Msg(extreme_tree(&d, rng, depth - 1))
                    }
                }
                Kind::String | Kind::Bytes => {
                    let n = [0usize, 1, 4, 16, 31, 32, 33, 48, 96, 1000][rng.gen_range(0..10)];
                    Node::Bytes((0..n).map(|_| rng.gen()).collect())
                }
                Kind::Fixed64 | Kind::Sfixed64 | Kind::Double => Node::I64(rng.gen()),
                Kind::Fixed32 | Kind::Sfixed32 | Kind::Float => Node::I32(rng.gen()),
                Kind::Int32 | Kind::Sint32 | Kind::Uint32 | Kind::Enum(_) | Kind::Bool => Node::Varint(match rng.gen_range(0..8) {
                    0 => 0,
                    1 => 1,
                    2 => u32::MAX as u64,
                    3 => i32::MAX as u64,
                    4 => (i32::MIN as i64) as u64,
                    5 => 1_000_000_000,
                    6 => 999_999_999,
                    _ => rng.gen::<u32>() as u64,
                }),
                _ => Node::Varint(match rng.gen_range(0..8) {
                    0 => 0,
                    1 => 1,
                    2 => u64::MAX,
                    3 => i64::MAX as u64,
                    4 => i64::MIN as u64,
                    5 => u64::MAX - 1,
                    6 => 1 << rng.gen_range(0..64),
                    _ => rng.gen(),
                }),
            };
            out.push((f.number(), node));
        }
    }
    out
}
