//! C10 - no input from the network can crash a node. Byte-level adversary at every protocol stage:
//! L0 message decoders, L1 length-prefixed frames, L2 noise handshake, L4 mux frame headers (all 65536),
//! L5 RPC requests. Oracle: no panic / abort, the entry point returns, allocation stays bounded.
use std::collections::BTreeMap;

use prost_reflect::{MessageDescriptor, ReflectMessage};
use rand::{rngs::StdRng, Rng};
use tokio::io::{AsyncReadExt, AsyncWriteExt};
use vcommon::{catch, hex, json, rng_for, Args, Report};
use zksync_concurrency::{ctx, limiter, time};
use zksync_consensus_network::verif::{self, MuxConfig, StreamQueue};
use zksync_consensus_roles::{node, validator};
use zksync_protobuf::ProtoFmt;

use crate::{alloc, transport::{duplex, Script, Tamper}};

type Dec = Box<dyn Fn(&[u8]) -> Result<(), String>>;

struct Kind {
    name: String,
    dec: Dec,
    desc: MessageDescriptor,
    /// valid encodings to mutate
    seeds: Vec<Vec<u8>>,
}

fn public<T: ProtoFmt + 'static>(name: &str, seeds: Vec<Vec<u8>>) -> Kind {
    Kind {
        name: name.to_string(),
        dec: Box::new(|b| zksync_protobuf::decode::<T>(b).map(|_| ()).map_err(|e| format!("{e:#}"))),
        desc: T::Proto::default().descriptor(),
        seeds,
    }
}

fn kinds(rng: &mut StdRng) -> Vec<Kind> {
    use rand::distributions::Standard;
    use rand::prelude::Distribution;
    fn seeds<T: ProtoFmt>(rng: &mut StdRng, n: usize) -> Vec<Vec<u8>>
    where
        Standard: Distribution<T>,
    {
        (0..n).map(|_| zksync_protobuf::encode(&rng.gen::<T>())).collect()
    }
    let mut v = vec![
        public::<validator::Msg>("validator.Msg", seeds::<validator::Msg>(rng, 6)),
        public::<validator::ConsensusMsg>("validator.ConsensusMsg", seeds::<validator::ConsensusMsg>(rng, 6)),
        public::<validator::Signed<validator::ConsensusMsg>>("validator.Signed<ConsensusMsg>", seeds::<validator::Signed<validator::ConsensusMsg>>(rng, 4)),
        public::<validator::v2::LeaderProposal>("v2.LeaderProposal", seeds::<validator::v2::LeaderProposal>(rng, 4)),
        public::<validator::v2::ReplicaTimeout>("v2.ReplicaTimeout", seeds::<validator::v2::ReplicaTimeout>(rng, 4)),
        public::<validator::v2::ReplicaNewView>("v2.ReplicaNewView", seeds::<validator::v2::ReplicaNewView>(rng, 4)),
        public::<validator::v2::CommitQC>("v2.CommitQC", seeds::<validator::v2::CommitQC>(rng, 4)),
        public::<validator::v2::TimeoutQC>("v2.TimeoutQC", seeds::<validator::v2::TimeoutQC>(rng, 4)),
        public::<validator::v2::FinalBlock>("v2.FinalBlock", seeds::<validator::v2::FinalBlock>(rng, 3)),
        public::<validator::Block>("validator.Block", seeds::<validator::Block>(rng, 3)),
        public::<validator::PreGenesisBlock>("validator.PreGenesisBlock", seeds::<validator::PreGenesisBlock>(rng, 3)),
        public::<validator::Genesis>("validator.Genesis", seeds::<validator::GenesisRaw>(rng, 4)),
        public::<validator::Schedule>("validator.Schedule", seeds::<validator::Schedule>(rng, 3)),
        public::<validator::ReplicaState>("validator.ReplicaState", seeds::<validator::ReplicaState>(rng, 3)),
        public::<validator::NetAddress>("validator.NetAddress", seeds::<validator::NetAddress>(rng, 4)),
        public::<validator::Signed<validator::NetAddress>>("validator.Signed<NetAddress>", seeds::<validator::Signed<validator::NetAddress>>(rng, 3)),
        public::<node::Msg>("node.Msg", vec![zksync_protobuf::encode(&node::Msg::SessionId(node::SessionId(vec![1, 2, 3])))]),
        public::<time::Duration>("std.Duration", vec![zksync_protobuf::encode(&time::Duration::seconds(5))]),
        public::<time::Utc>("std.Timestamp", vec![zksync_protobuf::encode(&(time::UNIX_EPOCH + time::Duration::seconds(77)))]),
        public::<std::net::SocketAddr>("std.SocketAddr", vec![zksync_protobuf::encode(&std::net::SocketAddr::from(([1, 2, 3, 4], 5)))]),
        public::<bit_vec::BitVec>("std.BitVector", vec![zksync_protobuf::encode(&bit_vec::BitVec::from_elem(13, true))]),
        public::<limiter::Rate>("std.RateLimit", vec![zksync_protobuf::encode(&limiter::Rate { burst: 3, refresh: time::Duration::seconds(1) })]),
    ];
    // crate-private network messages through the facade
    let m: validator::Signed<validator::ConsensusMsg> = rng.gen();
    let mut seeds_by_kind: BTreeMap<&str, Vec<Vec<u8>>> = BTreeMap::new();
    seeds_by_kind.insert("rpc.consensus.Req", vec![verif::wire_encode::consensus_req(m)]);
    seeds_by_kind.insert("rpc.get_block.Req", vec![verif::wire_encode::get_block_req(validator::BlockNumber(7))]);
    seeds_by_kind.insert("rpc.get_block.Resp", vec![verif::wire_encode::get_block_resp(Some(validator::Block::FinalV2(rng.gen()))), verif::wire_encode::get_block_resp(None)]);
    seeds_by_kind.insert("rpc.ping.Req", vec![verif::wire_encode::ping_req([7; 32])]);
    seeds_by_kind.insert("rpc.ping.Resp", vec![verif::wire_encode::ping_req([9; 32])]);
    seeds_by_kind.insert("rpc.push_block_store_state.Req", vec![verif::wire_encode::push_block_store_state_req(rng.gen())]);
    seeds_by_kind.insert("rpc.push_tx.Req", vec![verif::wire_encode::push_tx_req(rng.gen())]);
    seeds_by_kind.insert("rpc.push_validator_addrs.Req", vec![verif::wire_encode::push_validator_addrs_req(vec![std::sync::Arc::new(rng.gen())])]);
    let nk: node::SecretKey = rng.gen();
    let vk: validator::SecretKey = rng.gen();
    seeds_by_kind.insert("gossip.Handshake", vec![verif::encode_gossip_handshake(nk.sign_msg(node::SessionId(vec![1; 32])), rng.gen(), true)]);
    seeds_by_kind.insert("consensus.Handshake", vec![verif::encode_consensus_handshake(vk.sign_msg(node::SessionId(vec![1; 32])), rng.gen())]);
    seeds_by_kind.insert("mux.Handshake", vec![verif::encode_mux_handshake(&[(1, 2), (3, 4)], &[(5, 6)])]);
    for k in verif::WIRE_KINDS {
        let name: &'static str = k;
        v.push(Kind {
            name: format!("network.{name}"),
            dec: Box::new(move |b| verif::wire_decode(name, b).map(|_| ())),
            desc: verif::wire_descriptor(name).unwrap(),
            seeds: seeds_by_kind.get(name).cloned().unwrap_or_default(),
        });
    }
    v
}

fn mutate(rng: &mut StdRng, seed: &[u8], other: &[u8]) -> Vec<u8> {
    let mut b = seed.to_vec();
    if b.is_empty() {
        return vec![rng.gen()];
    }
    match rng.gen_range(0..8) {
        0 => {
            let i = rng.gen_range(0..b.len());
            b[i] ^= 1 << rng.gen_range(0..8);
        }
        1 => b.truncate(rng.gen_range(0..b.len())),
        2 => {
            let i = rng.gen_range(0..b.len());
            b[i] = [0x00, 0x7f, 0x80, 0xff, 0x01][rng.gen_range(0..5)];
        }
        3 => {
            // overlong varint spliced in
            let i = rng.gen_range(0..=b.len());
            let ins: Vec<u8> = vec![0xff; rng.gen_range(1..12)];
            b.splice(i..i, ins);
        }
        4 => {
            // duplicate a slice (repeated fields)
            let i = rng.gen_range(0..b.len());
            let j = rng.gen_range(i..b.len());
            let sl = b[i..=j].to_vec();
            b.splice(j..j, sl);
        }
        5 => {
            // splice with another valid encoding
            let i = rng.gen_range(0..=b.len());
            let j = rng.gen_range(0..=other.len());
            b.truncate(i);
            b.extend_from_slice(&other[j..]);
        }
        6 => {
            for _ in 0..rng.gen_range(1..6) {
                let i = rng.gen_range(0..b.len());
                b[i] = rng.gen();
            }
        }
        _ => {
            let i = rng.gen_range(0..b.len());
            b.insert(i, rng.gen());
        }
    }
    b
}

fn try_decode(rep: &mut Report, k: &Kind, input: &[u8], class: &str) {
    rep.evaluations += 1;
    rep.count(&format!("decode_inputs_{class}"));
    let base = alloc::start();
    let r = catch(|| (k.dec)(input));
    let peak = alloc::peak_above(base);
    rep.max("max_decode_allocation_bytes", peak as u64);
    match r {
        Err(p) => rep.violation(
            format!("panic|{}|decode:{}", p.loc(), k.name),
            format!("decoding {} bytes as {} panicked: {}", input.len(), k.name, p.message),
            json!({"stage": "L0", "kind": k.name, "bytes": hex(&input[..input.len().min(4096)])}),
        ),
        Ok(Ok(())) => rep.count("decode_accepted"),
        Ok(Err(_)) => rep.count("decode_rejected"),
    }
    if peak > 64 * input.len() + (1 << 20) {
        rep.violation(
            format!("allocation|unbounded|decode:{}", k.name),
            format!("decoding {} bytes as {} allocated {peak} bytes", input.len(), k.name),
            json!({"stage": "L0", "kind": k.name, "bytes": hex(&input[..input.len().min(4096)])}),
        );
    }
    rep.distinct(vcommon::hash_of(&(k.name.as_str(), vcommon::hash_bytes(input))));
}

fn l0(args: &Args, rep: &mut Report) {
    let mut rng = rng_for(args.seed, args.shard, 100, 0);
    let ks = kinds(&mut rng);
    if let Some(path) = &args.replay {
        let v: vcommon::Value = vcommon::serde_json::from_slice(&std::fs::read(path).unwrap()).unwrap();
        let name = v["replay"]["kind"].as_str().unwrap();
        let bytes = vcommon::unhex(v["replay"]["bytes"].as_str().unwrap());
        if let Some(k) = ks.iter().find(|k| k.name == name) {
            try_decode(rep, k, &bytes, "replay");
        }
        return;
    }
    let rounds = args.pick(300, 20000);
    for r in 0..rounds {
        if !rep.within_budget() { rep.count("stopped_by_budget"); break; }
        for k in &ks {
            // random bytes
            let n = [0usize, 1, 2, 5, 20, 100][rng.gen_range(0..6)];
            let bytes: Vec<u8> = (0..n).map(|_| rng.gen()).collect();
            try_decode(rep, k, &bytes, "random");
            // mutated valid encodings
            if !k.seeds.is_empty() {
                let s = &k.seeds[rng.gen_range(0..k.seeds.len())];
                let o = &k.seeds[rng.gen_range(0..k.seeds.len())];
                let m = mutate(&mut rng, s, o);
                try_decode(rep, k, &m, "mutated-valid");
                if r == 0 {
                    try_decode(rep, k, s, "valid");
                }
            }
            // structurally valid protos with extreme field values
            let tree = vwire::extreme_tree(&k.desc, &mut rng, 4);
            let enc = if rng.gen_bool(0.7) { vwire::canonical(&tree) } else { vwire::emit(&tree, &k.desc, vwire::Style { shuffle: true, packing: 3, overlong_varints: true }, &mut rng) };
            try_decode(rep, k, &enc, "structured-extremes");
        }
    }
    rep.add("decoder_kinds", ks.len() as u64);
    if rep.samples.len() < rep.max_samples {
        rep.sample(json!({"stage": "L0", "kinds": ks.iter().map(|k| k.name.clone()).collect::<Vec<_>>()}));
    }
}

/// L1: length-prefixed frames
fn l1(args: &Args, rep: &mut Report) {
    let rt = tokio::runtime::Builder::new_current_thread().enable_time().build().unwrap();
    let mut rng = rng_for(args.seed, args.shard, 101, 0);
    let valid = zksync_protobuf::encode(&rng.gen::<validator::Msg>());
    rt.block_on(async {
        let root = ctx::root();
        for case in 0..args.pick(300, 5000) {
            let max: usize = [0usize, 10, 1000, 10 * 1024][rng.gen_range(0..4)];
            let announced: u32 = match rng.gen_range(0..8) {
                0 => 0,
                1 => max as u32,
                2 => max as u32 + 1,
                3 => u32::MAX,
                4 => u32::MAX - 1,
                5 => valid.len() as u32,
                _ => rng.gen(),
            };
            let body_len = match rng.gen_range(0..4) { 0 => 0, 1 => announced.min(20_000) as usize, 2 => (announced.min(20_000) as usize).saturating_sub(1), _ => rng.gen_range(0..50) };
            let mut wire = announced.to_le_bytes().to_vec();
            let body: Vec<u8> = if announced as usize == valid.len() && rng.gen_bool(0.7) { valid.clone() } else { (0..body_len).map(|_| rng.gen()).collect() };
            wire.extend(&body);
            let base = alloc::start();
            let mut src: &[u8] = &wire;
            let res = match tokio::time::timeout(std::time::Duration::from_secs(20), verif::recv_proto::<validator::Msg, _>(&root, &mut src, max)).await {
                Ok(r) => r.is_ok(),
                Err(_) => {
                    rep.inconclusive("recv_proto did not return within 20 s");
                    false
                }
            };
            let peak = alloc::peak_above(base);
            rep.evaluations += 1;
            rep.count("frame_inputs");
            rep.count(if res { "frames_accepted" } else { "frames_rejected" });
            rep.max("max_frame_allocation_bytes", peak as u64);
            if announced as usize > max && res {
                rep.violation("oversized-frame-accepted||L1".to_string(), format!("frame announcing {announced} bytes accepted with limit {max}"), json!({"stage": "L1", "case": case}));
            }
            if peak > max + 64 * wire.len() + (1 << 16) {
                rep.violation("allocation|unbounded|frame".to_string(), format!("a frame announcing {announced} bytes (limit {max}, {} bytes actually sent) made recv_proto allocate {peak} bytes", wire.len()), json!({"stage": "L1", "case": case}));
            }
            rep.distinct(vcommon::hash_of(&(announced, max, body.len())));
        }
    });
}

/// L2: garbage during the noise handshake (both roles)
fn l2(args: &Args, rep: &mut Report) {
    let mut rng = rng_for(args.seed, args.shard, 102, 0);
    for case in 0..args.pick(200, 5000) {
        let garbage_len = [0usize, 1, 31, 32, 48, 100, 65535][rng.gen_range(0..7)];
        let garbage: Vec<u8> = (0..garbage_len).map(|_| rng.gen()).collect();
        let server = rng.gen_bool(0.5);
        let announce = match rng.gen_range(0..3) { 0 => garbage_len as u16, 1 => rng.gen(), _ => u16::MAX };
        let r = catch(|| {
            let rt = tokio::runtime::Builder::new_current_thread().enable_time().start_paused(true).build().unwrap();
            rt.block_on(async {
                let root = ctx::root();
                let (a, mut b, _st) = duplex(case, Script::default(), Script::default(), Tamper::None, false);
                let peer = async {
                    if !server {
                        // victim is the client: swallow its first message
                        let mut l = [0u8; 2];
                        let _ = b.read_exact(&mut l).await;
                        let mut m = vec![0u8; u16::from_le_bytes(l) as usize];
                        let _ = b.read_exact(&mut m).await;
                    }
                    let _ = b.write_all(&announce.to_le_bytes()).await;
                    let _ = b.write_all(&garbage).await;
                    let _ = b.shutdown().await;
                };
                let victim = async {
                    if server { verif::NoiseStream::server(&root, a).await.is_ok() } else { verif::NoiseStream::client(&root, a).await.is_ok() }
                };
                tokio::time::timeout(std::time::Duration::from_secs(3600), async { tokio::join!(victim, peer).0 }).await
            })
        });
        rep.evaluations += 1;
        rep.count("noise_handshake_garbage_cases");
        match r {
            Err(p) => rep.violation(format!("panic|{}|noise-handshake", p.loc()), format!("garbage handshake message ({garbage_len} bytes, announced {announce}) panicked: {}", p.message), json!({"stage": "L2", "case": case})),
            // NN is unauthenticated: 32 arbitrary bytes are a valid ephemeral key, so a responder may well complete;
            // identity is only established by the signed session id afterwards (C12)
            Ok(Ok(true)) => rep.count("noise_handshake_completed_with_arbitrary_key"),
            Ok(Ok(false)) => rep.count("noise_handshake_garbage_refused"),
            Ok(Err(_)) => rep.count("noise_handshake_waiting_for_more_bytes"),
        }
        rep.distinct(vcommon::hash_of(&(garbage_len, announce, server, case)));
    }
}

/// L4: after a valid mux handshake, one arbitrary 2-byte header (followed by some bytes) in a given connection state.
fn l4(args: &Args, rep: &mut Report) {
    let total: u32 = 65536;
    let states = args.pick(2u32, 4u32);
    for state in 0..states {
        let mut h = args.shard as u32;
        while h < total {
            let header = h as u16;
            h += args.nshards as u32;
            let r = catch(|| {
                let rt = tokio::runtime::Builder::new_current_thread().enable_time().start_paused(true).build().unwrap();
                rt.block_on(async {
                    let root = ctx::root();
                    let (a, mut b, _st) = duplex(header as u64, Script::default(), Script::default(), Tamper::None, false);
                    let qa = StreamQueue::new(&root, 2, limiter::Rate::INF);
                    let qc = StreamQueue::new(&root, 2, limiter::Rate::INF);
                    let mut accept = BTreeMap::new();
                    accept.insert(1u64, qa.clone());
                    let mut connect = BTreeMap::new();
                    connect.insert(2u64, qc.clone());
                    let cfg = MuxConfig { read_frame_size: 100, read_buffer_size: 1000, read_frame_count: 10, write_frame_size: 100 };
                    // the mux runs in its own task so that a panic inside it surfaces as a JoinError
                    let mux = tokio::spawn(async move {
                        let root = ctx::root();
                        verif::run_mux(&root, cfg, accept, connect, a).await
                    });
                    let hs = verif::encode_mux_handshake(&[(2, 2)], &[(1, 2)]);
                    let _ = b.write_all(&(hs.len() as u32).to_le_bytes()).await;
                    let _ = b.write_all(&hs).await;
                    let mut l = [0u8; 4];
                    let _ = b.read_exact(&mut l).await;
                    let mut peer_hs = vec![0u8; (u32::from_le_bytes(l) as usize).min(10_000)];
                    let _ = b.read_exact(&mut peer_hs).await;
                    // connection state before the probe header
                    let open_connect: u16 = 0b0010_0000_0000_0000; // OPEN | CONNECT | id 0
                    let data_connect: u16 = 0b0110_0000_0000_0000;
                    match state {
                        1 => {
                            let _ = b.write_all(&open_connect.to_le_bytes()).await;
                        }
                        2 => {
                            let _ = b.write_all(&open_connect.to_le_bytes()).await;
                            let _ = b.write_all(&data_connect.to_le_bytes()).await;
                            let _ = b.write_all(&5u16.to_le_bytes()).await;
                            let _ = b.write_all(b"hello").await;
                        }
                        3 => {
                            let close: u16 = 0b1010_0000_0000_0000;
                            let _ = b.write_all(&close.to_le_bytes()).await;
                            let _ = b.write_all(&close.to_le_bytes()).await;
                        }
                        _ => {}
                    }
                    let _ = b.write_all(&header.to_le_bytes()).await;
                    // a length + a few bytes in case it is taken as DATA
                    let _ = b.write_all(&3u16.to_le_bytes()).await;
                    let _ = b.write_all(b"abc").await;
                    let _ = b.shutdown().await;
                    let res = tokio::time::timeout(std::time::Duration::from_secs(3600), mux).await;
                    drop(b);
                    drop((qa, qc));
                    res
                })
            });
            rep.evaluations += 1;
            rep.count("mux_headers_probed");
            let replay = json!({"stage": "L4", "header": format!("{header:#06x}"), "state": state});
            match r {
                Err(p) => rep.violation(format!("panic|{}|mux-header", p.loc()), format!("mux frame header {header:#06x} in connection state {state}: {}", p.message), replay),
                Ok(Err(_)) => rep.count("mux_header_connection_still_open_at_eof"),
                Ok(Ok(Err(join))) => {
                    if join.is_panic() {
                        let (loc, msg) = vcommon::take_last_panic().unwrap_or_default();
                        let loc = match loc.find("/repo/") { Some(i) => loc[i + 6..].to_string(), None => loc };
                        rep.violation(format!("panic|{loc}|mux-header"), format!("mux frame header {header:#06x} (kind bits {:02b}, stream kind {}, id {}) in connection state {state} panicked the multiplexer: {msg}", header >> 14, (header >> 13) & 1, header & 0x1fff), replay);
                    }
                }
                Ok(Ok(Ok(Err(e)))) => {
                    rep.count("mux_header_connection_ended_with_error");
                    let class = e.split(':').next().unwrap_or("").to_string();
                    rep.count(&format!("mux_end_{class}"));
                }
                Ok(Ok(Ok(Ok(())))) => rep.count("mux_header_run_returned_ok"),
            }
            rep.distinct(((state as u64) << 16) | header as u64);
        }
    }
    rep.add("mux_header_space_per_state", total as u64 / args.nshards as u64);
}

/// L5: RPC requests. A raw mux peer opens a consensus / ping stream of a real rpc::Service and sends a request frame
/// whose announced length is absurd, or whose body is malformed. The service must neither panic nor allocate the
/// announced size, and keeps serving (a following valid ping is answered... the connection may also be dropped).
fn l5(args: &Args, rep: &mut Report) {
    struct Probe;
    #[async_trait::async_trait]
    impl verif::ConsensusProbe for Probe {
        async fn on_request(&self, _ctx: &ctx::Ctx, _msg: validator::Signed<validator::ConsensusMsg>) {}
        fn max_req_size(&self) -> usize {
            10_000
        }
    }
    let mut rng = rng_for(args.seed, args.shard, 105, 0);
    let valid = verif::wire_encode::consensus_req(rng.gen());
    for case in 0..args.pick(150, 4000) {
        let announced: u32 = match rng.gen_range(0..7) {
            0 => 0,
            1 => 10_000,
            2 => 10_001,
            3 => u32::MAX,
            4 => 1 << 30,
            5 => valid.len() as u32,
            _ => rng.gen(),
        };
        let body: Vec<u8> = match rng.gen_range(0..4) {
            0 => vec![],
            1 => valid.clone(),
            2 => mutate(&mut rng, &valid, &valid),
            _ => (0..rng.gen_range(0..200)).map(|_| rng.gen()).collect(),
        };
        let stream_id: u16 = rng.gen_range(0..5);
        let base = alloc::start();
        let r = catch(|| {
            let rt = tokio::runtime::Builder::new_current_thread().enable_time().start_paused(true).build().unwrap();
            rt.block_on(async {
                let (a, mut b, _st) = duplex(case, Script::default(), Script::default(), Tamper::None, false);
                let server = tokio::spawn(async move {
                    let root = ctx::root();
                    verif::run_rpc_server(&root, a, Some((&Probe, limiter::Rate::INF))).await
                });
                let hs = verif::encode_mux_handshake(&[(verif::CAP_CONSENSUS, 10), (verif::CAP_PING, 10)], &[]);
                let _ = b.write_all(&(hs.len() as u32).to_le_bytes()).await;
                let _ = b.write_all(&hs).await;
                let mut l = [0u8; 4];
                let _ = b.read_exact(&mut l).await;
                let mut peer = vec![0u8; (u32::from_le_bytes(l) as usize).min(10_000)];
                let _ = b.read_exact(&mut peer).await;
                let open = stream_id;
                let data = 0b0100_0000_0000_0000u16 | stream_id;
                let close = 0b1000_0000_0000_0000u16 | stream_id;
                let _ = b.write_all(&open.to_le_bytes()).await;
                let mut frame = announced.to_le_bytes().to_vec();
                frame.extend(&body);
                for chunk in frame.chunks(60_000) {
                    let _ = b.write_all(&data.to_le_bytes()).await;
                    let _ = b.write_all(&(chunk.len() as u16).to_le_bytes()).await;
                    let _ = b.write_all(chunk).await;
                }
                let _ = b.write_all(&close.to_le_bytes()).await;
                // let the service work on it in virtual time, then hang up
                let _ = tokio::time::timeout(std::time::Duration::from_secs(60), async {
                    let mut buf = [0u8; 1024];
                    while let Ok(n) = b.read(&mut buf).await {
                        if n == 0 {
                            break;
                        }
                    }
                })
                .await;
                drop(b);
                tokio::time::timeout(std::time::Duration::from_secs(3600), server).await
            })
        });
        let peak = alloc::peak_above(base);
        rep.evaluations += 1;
        rep.count("rpc_request_inputs");
        rep.max("max_rpc_allocation_bytes", peak as u64);
        let replay = json!({"stage": "L5", "case": case, "announced": announced, "body_len": body.len()});
        match r {
            Err(p) => rep.violation(format!("panic|{}|rpc-request", p.loc()), format!("request frame announcing {announced} bytes: {}", p.message), replay.clone()),
            Ok(Ok(Err(join))) if join.is_panic() => {
                let (loc, msg) = vcommon::take_last_panic().unwrap_or_default();
                let loc = match loc.find("/repo/") { Some(i) => loc[i + 6..].to_string(), None => loc };
                rep.violation(format!("panic|{loc}|rpc-request"), format!("request frame announcing {announced} bytes with a body of {} bytes panicked the service: {msg}", body.len()), replay.clone());
            }
            Ok(Err(_)) => rep.count("rpc_service_still_running_after_hangup"),
            _ => rep.count("rpc_service_ended"),
        }
        // whatever the peer announces, the service may not allocate more than its request limit (+ mux buffers)
        if peak > 10_000 + 160 * 1024 * 4 + (1 << 20) {
            rep.violation("allocation|unbounded|rpc-request".to_string(), format!("a request frame announcing {announced} bytes ({} actually sent) made the service allocate {peak} bytes; max_req_size is 10000", body.len()), replay);
        }
        rep.distinct(vcommon::hash_of(&(announced, body.len(), stream_id, case)));
    }
}

pub fn run(args: &Args, rep: &mut Report) {
    rep.rule = "one evaluation = one hostile input at one protocol stage: L0 a byte string offered to one of the message decoders (random / mutated valid / structurally valid \
                with extreme field values), L1 a length-prefixed frame, L2 a garbage noise handshake message, L4 one of all 65536 mux frame headers in 2-4 connection states; \
                the entry point must return without panic and with bounded allocation; distinct = distinct inputs"
        .into();
    match args.extra.get("mode").map(|s| s.as_str()) {
        Some("decoders") => l0(args, rep),
        Some("frames") => {
            l1(args, rep);
            l2(args, rep);
            l5(args, rep);
        }
        Some("mux-headers") => l4(args, rep),
        m => panic!("unknown C10 mode {m:?}"),
    }
}
