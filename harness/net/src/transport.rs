//! Scripted in-memory transport: a duplex byte pipe with PRNG-driven fragmentation, `Pending`
//! injections, partial writes, bounded buffering (back-pressure), byte counters and an optional
//! frame-aware tamper stage per direction.
use std::{
    collections::VecDeque,
    pin::Pin,
    sync::{Arc, Mutex},
    task::{Context, Poll, Waker},
};

use rand::{rngs::StdRng, Rng, SeedableRng};
use tokio::io::{AsyncRead, AsyncWrite, ReadBuf};

/// What the tamper stage does to the `<u16 len><body>` frame stream of one direction.
#[derive(Clone, Debug, PartialEq)]
pub enum Tamper {
    None,
    /// flip bit `bit` of byte `offset` of frame number `frame` (offset counts from the length field)
    FlipBit { frame: usize, offset: usize, bit: u8 },
    /// cut the stream after `offset` bytes of frame `frame` (then EOF)
    Truncate { frame: usize, offset: usize },
    DropFrame { frame: usize },
    DuplicateFrame { frame: usize },
    SwapWithNext { frame: usize },
    /// insert a copy of the earlier frame `earlier` before frame `frame`
    Replay { frame: usize, earlier: usize },
}

#[derive(Clone, Copy, Debug, Default)]
pub struct Script {
    /// max bytes returned by one poll_read (0 = unlimited)
    pub read_cap: usize,
    /// max bytes accepted by one poll_write (0 = unlimited)
    pub write_cap: usize,
    /// probability (per mille) that a poll returns Pending first
    pub pending_permille: u32,
    /// max bytes buffered in flight (0 = unlimited): back-pressure for the writer
    pub capacity: usize,
    /// random chunk sizes up to the caps instead of the caps themselves
    pub random_chunks: bool,
}

struct Chan {
    /// bytes written but not yet passed through the tamper stage (only when tampering)
    raw: Vec<u8>,
    frames_seen: usize,
    history: Vec<Vec<u8>>,
    held: Option<Vec<u8>>,
    cut: bool,
    ready: VecDeque<u8>,
    closed: bool,
    tamper: Tamper,
    read_waker: Option<Waker>,
    write_waker: Option<Waker>,
    pub written: u64,
    pub read: u64,
    /// every byte the writer put on the wire (before tampering), for wire-format checks
    wire_log: Option<Vec<u8>>,
}

impl Chan {
    fn new(tamper: Tamper, log: bool) -> Self {
        Chan { raw: vec![], frames_seen: 0, history: vec![], held: None, cut: false, ready: VecDeque::new(), closed: false, tamper, read_waker: None, write_waker: None, written: 0, read: 0, wire_log: if log { Some(vec![]) } else { None } }
    }

    fn push(&mut self, data: &[u8]) {
        self.written += data.len() as u64;
        if let Some(l) = self.wire_log.as_mut() {
            l.extend_from_slice(data);
        }
        if self.tamper == Tamper::None {
            self.ready.extend(data);
            return;
        }
        self.raw.extend_from_slice(data);
        // move complete frames through the tamper stage
        loop {
            if self.cut {
                self.raw.clear();
                return;
            }
            if self.raw.len() < 2 {
                break;
            }
            let n = u16::from_le_bytes([self.raw[0], self.raw[1]]) as usize;
            // truncation inside a frame does not need the whole frame
            if let Tamper::Truncate { frame, offset } = self.tamper {
                if frame == self.frames_seen && self.raw.len() >= offset.min(2 + n) {
                    let k = offset.min(2 + n);
                    let part: Vec<u8> = self.raw[..k].to_vec();
                    self.ready.extend(part);
                    self.cut = true;
                    self.closed = true;
                    self.raw.clear();
                    return;
                }
            }
            if self.raw.len() < 2 + n {
                break;
            }
            let mut f: Vec<u8> = self.raw.drain(..2 + n).collect();
            let idx = self.frames_seen;
            self.frames_seen += 1;
            self.history.push(f.clone());
            match self.tamper.clone() {
                Tamper::FlipBit { frame, offset, bit } if frame == idx => {
                    let o = offset.min(f.len() - 1);
                    f[o] ^= 1 << (bit % 8);
                    self.ready.extend(f);
                }
                Tamper::DropFrame { frame } if frame == idx => {}
                Tamper::DuplicateFrame { frame } if frame == idx => {
                    self.ready.extend(f.clone());
                    self.ready.extend(f);
                }
                Tamper::SwapWithNext { frame } if frame == idx => {
                    self.held = Some(f);
                }
                Tamper::SwapWithNext { frame } if frame + 1 == idx => {
                    self.ready.extend(f);
                    if let Some(h) = self.held.take() {
                        self.ready.extend(h);
                    }
                }
                Tamper::Replay { frame, earlier } if frame == idx => {
                    if let Some(e) = self.history.get(earlier).cloned() {
                        self.ready.extend(e);
                    }
                    self.ready.extend(f);
                }
                _ => self.ready.extend(f),
            }
        }
    }
}

pub struct End {
    rx: Arc<Mutex<Chan>>,
    tx: Arc<Mutex<Chan>>,
    script: Script,
    rng: StdRng,
    /// bytes accepted from this end's writer
    pub name: &'static str,
}

#[derive(Clone)]
pub struct Stats {
    a2b: Arc<Mutex<Chan>>,
    b2a: Arc<Mutex<Chan>>,
}

impl Stats {
    /// bytes A wrote / B read so far
    pub fn a2b(&self) -> (u64, u64) {
        let c = self.a2b.lock().unwrap();
        (c.written, c.read)
    }
    pub fn b2a(&self) -> (u64, u64) {
        let c = self.b2a.lock().unwrap();
        (c.written, c.read)
    }
    pub fn wire_a2b(&self) -> Vec<u8> {
        self.a2b.lock().unwrap().wire_log.clone().unwrap_or_default()
    }
    pub fn frames_a2b(&self) -> usize {
        self.a2b.lock().unwrap().frames_seen
    }
    /// Arms the tamper stage of the A->B direction (frame numbering starts now).
    pub fn arm_a2b(&self, t: Tamper) {
        let mut c = self.a2b.lock().unwrap();
        c.tamper = t;
        c.frames_seen = 0;
        c.history.clear();
    }
    /// closes the B->A direction as seen by A and vice versa (peer vanished)
    pub fn kill(&self) {
        for c in [&self.a2b, &self.b2a] {
            let mut c = c.lock().unwrap();
            c.closed = true;
            if let Some(w) = c.read_waker.take() {
                w.wake();
            }
            if let Some(w) = c.write_waker.take() {
                w.wake();
            }
        }
    }
}

/// Creates a duplex pipe (A, B). `tamper_a2b` mangles what A writes before B reads it.
pub fn duplex(seed: u64, script_a: Script, script_b: Script, tamper_a2b: Tamper, log_a2b: bool) -> (End, End, Stats) {
    let a2b = Arc::new(Mutex::new(Chan::new(tamper_a2b, log_a2b)));
    let b2a = Arc::new(Mutex::new(Chan::new(Tamper::None, false)));
    let a = End { rx: b2a.clone(), tx: a2b.clone(), script: script_a, rng: StdRng::seed_from_u64(seed ^ 0xa), name: "A" };
    let b = End { rx: a2b.clone(), tx: b2a.clone(), script: script_b, rng: StdRng::seed_from_u64(seed ^ 0xb), name: "B" };
    (a, b, Stats { a2b, b2a })
}

impl End {
    fn maybe_pending(&mut self, cx: &mut Context<'_>) -> bool {
        if self.script.pending_permille > 0 && self.rng.gen_range(0..1000) < self.script.pending_permille {
            cx.waker().wake_by_ref();
            return true;
        }
        false
    }
    fn chunk(&mut self, cap: usize, want: usize) -> usize {
        let mut n = want;
        if cap > 0 {
            n = n.min(cap);
        }
        if self.script.random_chunks && n > 1 {
            n = self.rng.gen_range(1..=n);
        }
        n
    }
}

impl AsyncRead for End {
    fn poll_read(mut self: Pin<&mut Self>, cx: &mut Context<'_>, buf: &mut ReadBuf<'_>) -> Poll<std::io::Result<()>> {
        if self.maybe_pending(cx) {
            return Poll::Pending;
        }
        let cap = self.script.read_cap;
        let want = buf.remaining();
        let n_max = self.chunk(cap, want);
        let rx = self.rx.clone();
        let mut c = rx.lock().unwrap();
        if c.ready.is_empty() {
            if c.closed {
                return Poll::Ready(Ok(()));
            }
            c.read_waker = Some(cx.waker().clone());
            return Poll::Pending;
        }
        let n = n_max.min(c.ready.len()).max(if want > 0 { 1.min(c.ready.len()) } else { 0 });
        let bytes: Vec<u8> = c.ready.drain(..n).collect();
        buf.put_slice(&bytes);
        c.read += n as u64;
        if let Some(w) = c.write_waker.take() {
            w.wake();
        }
        Poll::Ready(Ok(()))
    }
}

impl AsyncWrite for End {
    fn poll_write(mut self: Pin<&mut Self>, cx: &mut Context<'_>, data: &[u8]) -> Poll<std::io::Result<usize>> {
        if self.maybe_pending(cx) {
            return Poll::Pending;
        }
        let cap = self.script.write_cap;
        let capacity = self.script.capacity;
        let mut n = self.chunk(cap, data.len());
        let tx = self.tx.clone();
        let mut c = tx.lock().unwrap();
        if c.closed {
            return Poll::Ready(Err(std::io::ErrorKind::BrokenPipe.into()));
        }
        if capacity > 0 {
            // bytes held by the tamper stage while a frame is incomplete do not count (the stage needs whole frames)
            let used = c.ready.len();
            if used >= capacity {
                c.write_waker = Some(cx.waker().clone());
                return Poll::Pending;
            }
            n = n.min(capacity - used);
        }
        c.push(&data[..n]);
        if let Some(w) = c.read_waker.take() {
            w.wake();
        }
        Poll::Ready(Ok(n))
    }
    fn poll_flush(self: Pin<&mut Self>, _cx: &mut Context<'_>) -> Poll<std::io::Result<()>> {
        Poll::Ready(Ok(()))
    }
    fn poll_shutdown(self: Pin<&mut Self>, _cx: &mut Context<'_>) -> Poll<std::io::Result<()>> {
        let mut c = self.tx.lock().unwrap();
        c.closed = true;
        if let Some(w) = c.read_waker.take() {
            w.wake();
        }
        Poll::Ready(Ok(()))
    }
}

impl Drop for End {
    fn drop(&mut self) {
        // a vanished endpoint: the peer sees EOF / broken pipe
        for c in [&self.tx, &self.rx] {
            let mut c = c.lock().unwrap();
            c.closed = true;
            if let Some(w) = c.read_waker.take() {
                w.wake();
            }
            if let Some(w) = c.write_waker.take() {
                w.wake();
            }
        }
    }
}

/// Await `fut` for at most `secs` seconds of (virtual or wall) time. On expiry the future is leaked, never
/// dropped: a dropped `scope::run!` future aborts the process (`must_complete::Guard`), which would turn a
/// detected deadlock into a harness crash instead of a verdict.
pub async fn leak_on_timeout<F: std::future::Future>(secs: u64, fut: F) -> Option<F::Output> {
    let mut fut = Box::pin(fut);
    tokio::select! {
        biased;
        v = &mut fut => Some(v),
        _ = tokio::time::sleep(std::time::Duration::from_secs(secs)) => {
            std::mem::forget(fut);
            None
        }
    }
}

/// A localhost listener on a fresh port. Unlike `net::tcp::testonly::reserve_listener` (which parks a guard socket in a
/// process-wide table for ever) nothing outlives the returned listener, so long runs do not exhaust file descriptors.
pub fn listen_localhost() -> (std::net::SocketAddr, tokio::net::TcpListener) {
    let (addr, l) = listen_localhost_std();
    (addr, tokio::net::TcpListener::from_std(l).unwrap())
}

/// Same, as a std listener (to be converted inside the runtime that will poll it).
pub fn listen_localhost_std() -> (std::net::SocketAddr, std::net::TcpListener) {
    // the sandbox has ~28k ephemeral ports and closed connections linger in TIME_WAIT for 60 s: wait for a free port
    let mut tries = 0;
    let l = loop {
        match std::net::TcpListener::bind("127.0.0.1:0") {
            Ok(l) => break l,
            Err(e) if tries < 900 => {
                let _ = e;
                tries += 1;
                std::thread::sleep(std::time::Duration::from_millis(100));
            }
            Err(e) => panic!("bind 127.0.0.1:0: {e:?}"),
        }
    };
    l.set_nonblocking(true).unwrap();
    (l.local_addr().unwrap(), l)
}
