//! C12 (handshake half) - admission oracle over adversarial handshake transcripts on real localhost
//! TCP + real noise sessions: `Ok(K)` is legitimate iff K's secret key signed the identifier of
//! *this very session* together with this node's genesis (and, outbound, K is the dialled peer).
use rand::{rngs::StdRng, Rng};
use tokio::io::{AsyncReadExt, AsyncWriteExt};
use vcommon::{json, rng_for, Args, Report};
use zksync_concurrency::{ctx, scope};
use zksync_consensus_network::{testonly, verif, Config};
use zksync_consensus_roles::{node, validator};

/// set when a TCP connect / accept / preface step (the environment, not the handshake under test) failed in the current case
static ENV_FAIL: std::sync::atomic::AtomicBool = std::sync::atomic::AtomicBool::new(false);
fn env_fail<E>(_: E) { ENV_FAIL.store(true, std::sync::atomic::Ordering::SeqCst); }

const TRANSCRIPTS: [&str; 10] = [
    "honest", "replayed-from-other-session", "relayed-by-mitm", "signed-by-other-key", "right-key-wrong-session-id", "right-key-truncated-session-id",
    "right-key-extended-session-id", "wrong-genesis", "malformed-frame", "empty-frame",
];

async fn send_raw(s: &mut verif::TcpNoise, bytes: &[u8]) -> std::io::Result<()> {
    s.write_all(&(bytes.len() as u32).to_le_bytes()).await?;
    s.write_all(bytes).await?;
    s.flush().await
}

async fn recv_raw(s: &mut verif::TcpNoise) -> std::io::Result<Vec<u8>> {
    let mut l = [0u8; 4];
    s.read_exact(&mut l).await?;
    let n = u32::from_le_bytes(l) as usize;
    if n > 100_000 {
        return Err(std::io::ErrorKind::InvalidData.into());
    }
    let mut b = vec![0u8; n];
    s.read_exact(&mut b).await?;
    Ok(b)
}

#[derive(Clone, Copy, PartialEq, Debug)]
enum Net {
    Gossip,
    Consensus,
}

struct World {
    cfgs: Vec<Config>,
    vkeys: Vec<validator::SecretKey>,
    genesis: validator::GenesisHash,
    other_genesis: validator::GenesisHash,
    /// frames of honest handshakes recorded on earlier sessions: (net, key index, frame)
    recorded: Vec<(Net, usize, Vec<u8>)>,
}

fn handshake_frame(w: &World, netk: Net, signer: usize, claimed: usize, sid: Vec<u8>, genesis: validator::GenesisHash) -> Vec<u8> {
    match netk {
        Net::Gossip => {
            let mut s = w.cfgs[signer].gossip.key.sign_msg(node::SessionId(sid));
            s.key = w.cfgs[claimed].gossip.key.public();
            verif::encode_gossip_handshake(s, genesis, false)
        }
        Net::Consensus => {
            let mut s = w.vkeys[signer].sign_msg(node::SessionId(sid));
            s.key = w.vkeys[claimed].public();
            verif::encode_consensus_handshake(s, genesis)
        }
    }
}

/// The victim (index 0) accepts one inbound connection; the peer speaks `transcript` claiming to be identity `who` (1, or 0 = the victim's own identity: the inbound end of a loopback connection)
/// (the adversary owns identity 2). Returns the identity the victim admitted, if any.
async fn inbound_case(ctx: &ctx::Ctx, w: &mut World, netk: Net, transcript: &str, who: usize, rng: &mut StdRng) -> Option<String> {
    let (addr, mut listener) = crate::transport::listen_localhost();
    let addr = &addr;
    let endpoint = if netk == Net::Gossip { verif::Endpoint::GossipNet } else { verif::Endpoint::ConsensusNet };
    let (cfgs, vkeys, genesis) = (&w.cfgs, &w.vkeys, w.genesis);
    let wref: &World = w;
    let mut new_record: Option<Vec<u8>> = None;
    let res: Result<Option<String>, ()> = scope::run!(ctx, |ctx, s| async {
        // victim
        let victim = s.spawn(async {
            let tcp = verif::tcp_accept(ctx, &mut listener).await.map_err(env_fail)?;
            let (mut stream, _ep) = verif::preface_accept(ctx, tcp).await.map_err(env_fail)?;
            let r = match netk {
                Net::Gossip => verif::gossip_handshake_inbound(ctx, &cfgs[0], genesis, &mut stream).await.map(|k| format!("{k:?}")),
                Net::Consensus => verif::consensus_handshake_inbound(ctx, &vkeys[0], genesis, &mut stream).await.map(|k| format!("{k:?}")),
            };
            Ok(r.ok())
        });
        // peer
        let mut c = verif::preface_connect(ctx, *addr, endpoint).await.map_err(env_fail)?;
        let sid = c.id();
        match transcript {
            "honest" => {
                let f = handshake_frame(wref, netk, who, who, sid, genesis);
                new_record = Some(f.clone());
                let _ = send_raw(&mut c, &f).await;
                let _ = recv_raw(&mut c).await;
            }
            "replayed-from-other-session" => {
                let f = wref.recorded.iter().rev().find(|r| r.0 == netk && r.1 == who).map(|r| r.2.clone()).unwrap_or_else(|| handshake_frame(wref, netk, who, who, vec![7; 32], genesis));
                let _ = send_raw(&mut c, &f).await;
            }
            "relayed-by-mitm" => {
                // the honest identity 1 dials the adversary (thinking it is somebody else); the adversary terminates that
                // noise session and forwards the handshake frame verbatim on its own session with the victim
                let (addr2, mut l2) = crate::transport::listen_localhost();
                let addr2 = &addr2;
                let frame: Result<Vec<u8>, ()> = scope::run!(ctx, |ctx, s2| async {
                    s2.spawn_bg(async {
                        // honest dialler (real outbound code), it will fail in the end - irrelevant
                        if let Ok(mut st) = verif::preface_connect(ctx, *addr2, endpoint).await {
                            match netk {
                                Net::Gossip => { let _ = verif::gossip_handshake_outbound(ctx, &cfgs[who], genesis, &mut st, &cfgs[2].gossip.key.public()).await; }
                                Net::Consensus => { let _ = verif::consensus_handshake_outbound(ctx, &vkeys[who], genesis, &mut st, &vkeys[2].public()).await; }
                            }
                        }
                        Ok(())
                    });
                    let tcp = verif::tcp_accept(ctx, &mut l2).await.map_err(|_| ())?;
                    let (mut m, _) = verif::preface_accept(ctx, tcp).await.map_err(|_| ())?;
                    recv_raw(&mut m).await.map_err(|_| ())
                })
                .await;
                if let Ok(f) = frame {
                    let _ = send_raw(&mut c, &f).await;
                }
            }
            "signed-by-other-key" => {
                let f = handshake_frame(wref, netk, 2, who, sid, genesis);
                let _ = send_raw(&mut c, &f).await;
            }
            "right-key-wrong-session-id" => {
                let mut s2 = sid.clone();
                let i = rng.gen_range(0..s2.len());
                s2[i] ^= 1 << rng.gen_range(0..8);
                let _ = send_raw(&mut c, &handshake_frame(wref, netk, who, who, s2, genesis)).await;
            }
            "right-key-truncated-session-id" => {
                let mut s2 = sid.clone();
                s2.pop();
                let _ = send_raw(&mut c, &handshake_frame(wref, netk, who, who, s2, genesis)).await;
            }
            "right-key-extended-session-id" => {
                let mut s2 = sid.clone();
                s2.push(0);
                let _ = send_raw(&mut c, &handshake_frame(wref, netk, who, who, s2, genesis)).await;
            }
            "wrong-genesis" => {
                let _ = send_raw(&mut c, &handshake_frame(wref, netk, who, who, sid, wref.other_genesis)).await;
            }
            "malformed-frame" => {
                let mut f = handshake_frame(wref, netk, who, who, sid, genesis);
                let i = rng.gen_range(0..f.len());
                f.truncate(i);
                let _ = send_raw(&mut c, &f).await;
            }
            _ => {
                let _ = send_raw(&mut c, &[]).await;
            }
        }
        let admitted = victim.join(ctx).await.map_err(|_| ())?;
        Ok(admitted)
    })
    .await;
    if let Some(f) = new_record {
        w.recorded.push((netk, who, f));
    }
    res.ok().flatten()
}

/// The victim (index 0) dials a peer expecting identity `who` (1, or 0 = its own identity: the loopback dial of a validator); the harness is the server and answers with `transcript`.
async fn outbound_case(ctx: &ctx::Ctx, w: &World, netk: Net, transcript: &str, who: usize) -> bool {
    let (addr, mut listener) = crate::transport::listen_localhost();
    let addr = &addr;
    let endpoint = if netk == Net::Gossip { verif::Endpoint::GossipNet } else { verif::Endpoint::ConsensusNet };
    let res: Result<bool, ()> = scope::run!(ctx, |ctx, s| async {
        let victim = s.spawn(async {
            let mut st = verif::preface_connect(ctx, *addr, endpoint).await.map_err(env_fail)?;
            Ok(match netk {
                Net::Gossip => verif::gossip_handshake_outbound(ctx, &w.cfgs[0], w.genesis, &mut st, &w.cfgs[who].gossip.key.public()).await.is_ok(),
                Net::Consensus => verif::consensus_handshake_outbound(ctx, &w.vkeys[0], w.genesis, &mut st, &w.vkeys[who].public()).await.is_ok(),
            })
        });
        let tcp = verif::tcp_accept(ctx, &mut listener).await.map_err(env_fail)?;
        let (mut m, _) = verif::preface_accept(ctx, tcp).await.map_err(env_fail)?;
        let sid = m.id();
        let own = recv_raw(&mut m).await.unwrap_or_default();
        let f = match transcript {
            // loopback dial only: the adversary signs nothing, it echoes the dialler's own handshake frame
            "reflected-own-frame" => own,
            "honest" => handshake_frame(w, netk, who, who, sid, w.genesis),
            // a genuine, correctly signed handshake of another identity than the one that was dialled
            "other-identity" => handshake_frame(w, netk, 2, 2, sid, w.genesis),
            "signed-by-other-key" => handshake_frame(w, netk, 2, who, sid, w.genesis),
            "replayed-from-other-session" => w.recorded.iter().rev().find(|r| r.0 == netk && r.1 == who).map(|r| r.2.clone()).unwrap_or_else(|| handshake_frame(w, netk, who, who, vec![9; 32], w.genesis)),
            "wrong-genesis" => handshake_frame(w, netk, who, who, sid, w.other_genesis),
            _ => handshake_frame(w, netk, who, who, { let mut s = sid.clone(); s[0] ^= 1; s }, w.genesis),
        };
        let _ = send_raw(&mut m, &f).await;
        victim.join(ctx).await.map_err(|_| ())
    })
    .await;
    res.unwrap_or(false)
}

pub fn run(args: &Args, rep: &mut Report) {
    rep.rule = "one evaluation = one real localhost session (TCP + noise + preface) on which the victim runs the real gossip or consensus handshake against a peer speaking one \
                transcript class; admission is compared with the ground truth (who signed which session id for which genesis); distinct = distinct (network, direction, transcript, session)"
        .into();
    let rounds: u64 = args.extra_u64("cases").unwrap_or(args.pick(30, 600));
    let rt = tokio::runtime::Builder::new_multi_thread().worker_threads(2).enable_all().build().unwrap();
    let mut rng = rng_for(args.seed, args.shard, 12, 0);
    let setup = validator::testonly::Setup::new(&mut rng, 3);
    let mut w = World { cfgs: testonly::new_configs(&mut rng, &setup, 0), vkeys: setup.validator_keys.clone(), genesis: setup.genesis_hash(), other_genesis: rng.gen(), recorded: vec![] };
    rt.block_on(async {
        let root = ctx::root();
        let started = std::time::Instant::now();
        let mut sessions = 0u64;
        for round in 0..rounds {
            if !rep.within_budget() { rep.count("stopped_by_budget"); break; }
            // pace long runs: closed connections linger in TIME_WAIT for 60 s and the sandbox has ~28k ephemeral ports for all
            // shards together, so each shard opens at most ~20 sessions per second
            sessions += 34;
            let min_ms = sessions * 1000 / 20;
            let el = started.elapsed().as_millis() as u64;
            if round > 40 && el < min_ms {
                tokio::time::sleep(std::time::Duration::from_millis(min_ms - el)).await;
            }
            // every third round the claimed / dialled identity is the victim's own one (a validator's loopback connection)
            let who: usize = if round % 3 == 2 { 0 } else { 1 };
            let lb = if who == 0 { "loopback_" } else { "" };
            for netk in [Net::Gossip, Net::Consensus] {
                for t in TRANSCRIPTS {
                    ENV_FAIL.store(false, std::sync::atomic::Ordering::SeqCst);
                    let admitted = inbound_case(&root, &mut w, netk, t, who, &mut rng).await;
                    if admitted.is_none() && ENV_FAIL.load(std::sync::atomic::Ordering::SeqCst) {
                        rep.count("sessions_lost_to_the_environment");
                        continue;
                    }
                    rep.evaluations += 1;
                    rep.count(&format!("{lb}inbound_{netk:?}_{t}"));
                    rep.distinct(vcommon::hash_of(&(args.shard, round, format!("{netk:?}"), t, "in")));
                    let expected: Option<String> = if t == "honest" { Some(match netk { Net::Gossip => format!("{:?}", w.cfgs[who].gossip.key.public()), Net::Consensus => format!("{:?}", w.vkeys[who].public()) }) } else { None };
                    let replay = json!({"round": round, "net": format!("{netk:?}"), "direction": "inbound", "transcript": t, "claimed_identity": who});
                    match (&admitted, &expected) {
                        (Some(a), None) => rep.violation(format!("admitted-without-proof||{netk:?}/{lb}inbound/{t}"), format!("the victim admitted {a} on a session where the peer used transcript `{t}`"), replay),
                        (None, Some(_)) => rep.violation(format!("honest-peer-refused||{netk:?}/inbound"), "an honest handshake over this very session was refused".to_string(), replay),
                        (Some(a), Some(e)) if a != e => rep.violation(format!("admitted-as-wrong-identity||{netk:?}/inbound"), format!("admitted {a}, signer was {e}"), replay),
                        (Some(_), Some(_)) => rep.count("honest_admissions"),
                        (None, None) => rep.count("adversarial_transcripts_refused"),
                    }
                }
                for t in ["honest", "other-identity", "signed-by-other-key", "replayed-from-other-session", "wrong-genesis", "wrong-session-id", "reflected-own-frame"] {
                    // reflection only makes sense where a node dials its own identity, and only the validator network does that
                    if t == "reflected-own-frame" && !(who == 0 && netk == Net::Consensus) {
                        continue;
                    }
                    ENV_FAIL.store(false, std::sync::atomic::Ordering::SeqCst);
                    let ok = outbound_case(&root, &w, netk, t, who).await;
                    if !ok && ENV_FAIL.load(std::sync::atomic::Ordering::SeqCst) {
                        rep.count("sessions_lost_to_the_environment");
                        continue;
                    }
                    rep.evaluations += 1;
                    rep.count(&format!("{lb}outbound_{netk:?}_{t}"));
                    rep.distinct(vcommon::hash_of(&(args.shard, round, format!("{netk:?}"), t, "out")));
                    let replay = json!({"round": round, "net": format!("{netk:?}"), "direction": "outbound", "transcript": t, "dialled_identity": who});
                    if ok != (t == "honest") {
                        if ok {
                            rep.violation(format!("admitted-without-proof||{netk:?}/{lb}outbound/{t}"), format!("the dialling victim accepted a peer that answered with transcript `{t}`"), replay);
                        } else {
                            rep.violation(format!("honest-peer-refused||{netk:?}/outbound"), "the dialled honest peer was refused".to_string(), replay);
                        }
                    } else if ok {
                        rep.count("honest_admissions");
                    } else {
                        rep.count("adversarial_transcripts_refused");
                    }
                }
            }
        }
    });
    if rep.samples.len() < rep.max_samples {
        rep.sample(json!({"inbound_transcripts": TRANSCRIPTS, "outbound_transcripts": ["honest", "other-identity", "signed-by-other-key", "replayed-from-other-session", "wrong-genesis", "wrong-session-id"], "recorded_honest_frames": w.recorded.len()}));
    }
}
