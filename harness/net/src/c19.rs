//! C19 - block fetch requests: never lost, one holder at a time, lowest first, only to peers that announced the block.
use std::sync::{
    atomic::{AtomicBool, AtomicU64, Ordering},
    Arc, Mutex,
};

use rand::Rng;
use vcommon::{json, rng_for, Args, Report};
use zksync_concurrency::{ctx, scope, sync};
use zksync_consensus_engine::{BlockStoreState, Last};
use zksync_consensus_network::verif::FetchQueue;
use zksync_consensus_roles::validator;

#[derive(Clone, Debug, PartialEq)]
enum Ev {
    Requested(u64),
    AcceptCall { peer: usize },
    Accepted { peer: usize, n: u64 },
    Announced { peer: usize, range: (u64, Option<u64>) },
    Done { peer: usize, n: u64 },
    Failed { peer: usize, n: u64 },
    ReturnedOk(u64),
    ReturnedCanceled(u64),
    CancelIssued(u64),
}

fn state(first: u64, last: Option<u64>) -> BlockStoreState {
    BlockStoreState { first: validator::BlockNumber(first), last: last.map(|l| Last::PreGenesis(validator::BlockNumber(l))) }
}

pub fn run(args: &Args, rep: &mut Report) {
    rep.rule = "one evaluation = one scenario on the real fetch queue: 1-30 distinct block numbers requested (some cancelled), 1-6 peer workers with changing announced \
                ranges accepting and then succeeding / failing / disconnecting, followed by a phase where every peer has everything and succeeds; the event log is checked per \
                block; distinct = distinct event logs"
        .into();
    let ncases: u64 = args.extra_u64("cases").unwrap_or(args.pick(1500, 40000));
    for case in 0..ncases {
        if !rep.within_budget() { rep.count("stopped_by_budget"); break; }
        let mut rng = rng_for(args.seed, args.shard, 19, case);
        let multi = case % 4 == 3;
        let rt = if multi { tokio::runtime::Builder::new_multi_thread().worker_threads(4).enable_time().build().unwrap() } else { tokio::runtime::Builder::new_current_thread().enable_time().start_paused(true).build().unwrap() };
        let log: Arc<Mutex<Vec<Ev>>> = Arc::default();
        let npeers = rng.gen_range(1..=6usize);
        let nreq = rng.gen_range(1..=30usize);
        let mut numbers: Vec<u64> = (0..60).collect();
        use rand::seq::SliceRandom;
        numbers.shuffle(&mut rng);
        numbers.truncate(nreq);
        let cancel: Vec<bool> = (0..nreq).map(|_| rng.gen_bool(0.2)).collect();
        let seed = rng.gen::<u64>();
        let starved: Mutex<Vec<String>> = Mutex::default();
        let (quiescent_probes, quiescent_waiting) = (AtomicU64::new(0), AtomicU64::new(0));
        let finished = rt.block_on(async {
            let root = ctx::root();
            let q = FetchQueue::default();
            let healed = AtomicBool::new(false);
            let remaining = AtomicU64::new(nreq as u64);
            let announce: Vec<sync::watch::Sender<BlockStoreState>> = (0..npeers).map(|_| sync::watch::channel(state(0, None)).0).collect();
            let (q, log, healed, remaining, announce, numbers, cancel) = (&q, &log, &healed, &remaining, &announce, &numbers, &cancel);
            let (starved, quiescent_probes, quiescent_waiting) = (&starved, &quiescent_probes, &quiescent_waiting);
            let fut = async { scope::run!(&root, |ctx, s| async move {
                // peers
                for p in 0..npeers {
                    let mut r = rng_for(seed, p as u64, 191, 0);
                    s.spawn_bg(async move {
                        let mut sub = announce[p].subscribe();
                        loop {
                            log.lock().unwrap().push(Ev::AcceptCall { peer: p });
                            let Ok(acc) = q.accept_block(ctx, &mut sub).await else { return Ok(()) };
                            let n = acc.number.0;
                            log.lock().unwrap().push(Ev::Accepted { peer: p, n });
                            for _ in 0..r.gen_range(0..4) {
                                tokio::task::yield_now().await;
                            }
                            let ok = healed.load(Ordering::SeqCst) || r.gen_bool(0.5);
                            if ok {
                                log.lock().unwrap().push(Ev::Done { peer: p, n });
                                acc.done();
                            } else {
                                log.lock().unwrap().push(Ev::Failed { peer: p, n });
                                drop(acc);
                                if r.gen_bool(0.3) {
                                    // "disconnect": stay away for a while
                                    for _ in 0..r.gen_range(0..20) {
                                        tokio::task::yield_now().await;
                                    }
                                }
                            }
                        }
                    });
                }
                // requesters
                let mut handles = vec![];
                for (i, n) in numbers.iter().enumerate() {
                    let n = *n;
                    let do_cancel = cancel[i];
                    let mut r = rng_for(seed, i as u64, 192, 0);
                    handles.push(s.spawn(async move {
                        for _ in 0..r.gen_range(0..10) {
                            tokio::task::yield_now().await;
                        }
                        // `Requested` is logged by the task that polls `request()` first, immediately before that poll (the
                        // insertion happens in the first poll): logging it earlier, before the cancellation scope has even
                        // started its main task, would claim the block was waiting while it was not in the queue yet
                        let res = if do_cancel {
                            // the requester gives up after some steps
                            let steps = r.gen_range(0..30);
                            scope::run!(ctx, |ctx, s2| async move {
                                s2.spawn_bg(async move {
                                    for _ in 0..steps {
                                        tokio::task::yield_now().await;
                                    }
                                    log.lock().unwrap().push(Ev::CancelIssued(n));
                                    s2.cancel();
                                    Ok::<(), ()>(())
                                });
                                log.lock().unwrap().push(Ev::Requested(n));
                                Ok(q.request(ctx, validator::BlockNumber(n)).await)
                            })
                            .await
                            .unwrap()
                        } else {
                            log.lock().unwrap().push(Ev::Requested(n));
                            q.request(ctx, validator::BlockNumber(n)).await
                        };
                        log.lock().unwrap().push(if res.is_ok() { Ev::ReturnedOk(n) } else { Ev::ReturnedCanceled(n) });
                        remaining.fetch_sub(1, Ordering::SeqCst);
                        Ok(())
                    }));
                }
                // controller: changing announcements, then the healed phase
                let mut r = rng_for(seed, 7, 193, 0);
                for _ in 0..r.gen_range(5..60) {
                    let p = r.gen_range(0..npeers);
                    // before the healed phase every peer only ever announces blocks inside its own band
                    let lo = (p as u64) * 10;
                    let first = lo + r.gen_range(0..10);
                    let last = if r.gen_bool(0.8) { Some((first + r.gen_range(0..15)).min(lo + 24)) } else { None };
                    log.lock().unwrap().push(Ev::Announced { peer: p, range: (first, last) });
                    announce[p].send_replace(state(first, last));
                    for _ in 0..r.gen_range(0..6) {
                        tokio::task::yield_now().await;
                    }
                }
                // quiescence probe (deterministic runtime only): once nothing moves any more, the lowest requested block must not be
                // one that an idle peer (inside accept_block) has announced - that request would be starving, not merely waiting
                if !multi {
                    let (mut stable, mut last_len) = (0, log.lock().unwrap().len());
                    for _ in 0..20_000 {
                        tokio::task::yield_now().await;
                        let l = log.lock().unwrap().len();
                        if l == last_len { stable += 1; } else { stable = 0; last_len = l; }
                        if stable >= 100 { break; }
                    }
                    if stable >= 100 {
                        quiescent_probes.fetch_add(1, Ordering::SeqCst);
                        if let Some(lowest) = q.current_blocks().first().copied() {
                            let evs = log.lock().unwrap();
                            for p in 0..npeers {
                                let idle = matches!(evs.iter().rev().find(|e| matches!(e, Ev::AcceptCall { peer } | Ev::Accepted { peer, .. } if *peer == p)), Some(Ev::AcceptCall { .. }));
                                let has = evs.iter().rev().find_map(|e| if let Ev::Announced { peer, range } = e { if *peer == p { Some(*range) } else { None } } else { None })
                                    .map(|(f, l)| l.is_some_and(|l| f <= lowest && lowest <= l)).unwrap_or(false);
                                if idle && has {
                                    starved.lock().unwrap().push(format!("block {lowest} is the lowest requested block, peer {p} announced it and sits idle in accept_block, and nothing moves any more"));
                                }
                            }
                            if starved.lock().unwrap().is_empty() { quiescent_waiting.fetch_add(1, Ordering::SeqCst); }
                        }
                    }
                }
                healed.store(true, Ordering::SeqCst);
                for (p, a) in announce.iter().enumerate() {
                    log.lock().unwrap().push(Ev::Announced { peer: p, range: (0, Some(100)) });
                    a.send_replace(state(0, Some(100)));
                }
                for h in handles {
                    let _ = h.join(ctx).await;
                }
                Ok::<(), ()>(())
            }).await };
            crate::transport::leak_on_timeout(if multi { 60 } else { 3600 }, fut).await.is_some()
        });
        let evs = log.lock().unwrap().clone();
        rep.evaluations += 1;
        rep.count(if multi { "scenarios_multi_thread" } else { "scenarios_current_thread" });
        let replay = json!({"case": case, "events": format!("{evs:?}").chars().take(3000).collect::<String>()});
        if !finished {
            std::mem::forget(rt);
            if multi {
                rep.inconclusive("multi-thread fetch scenario hit the 60 s wall-clock watchdog");
            } else {
                rep.violation("request-lost||".to_string(), format!("after every peer announced everything and succeeds, some request never returned (virtual-time deadlock); still queued: events {}", evs.len()), replay.clone());
            }
            rep.finish_and_exit();
        }
        drop(rt);
        rep.add("quiescence_probes", quiescent_probes.load(Ordering::SeqCst));
        rep.add("quiescence_probes_with_requests_legitimately_waiting", quiescent_waiting.load(Ordering::SeqCst));
        for d in starved.lock().unwrap().iter().take(1) {
            rep.violation("request-starved||idle-peer-has-lowest-block".to_string(), d.clone(), replay.clone());
        }
        // per-block checks
        let mut holder: std::collections::BTreeMap<u64, usize> = Default::default();
        let mut done: std::collections::BTreeSet<u64> = Default::default();
        let mut cancelled: std::collections::BTreeSet<u64> = Default::default();
        for (idx, e) in evs.iter().enumerate() {
            match e {
                Ev::Accepted { peer, n } => {
                    rep.count("accepts_checked");
                    if let Some(h) = holder.get(n) {
                        rep.violation("two-holders-for-one-block||".to_string(), format!("block {n} accepted by peer {peer} while peer {h} still holds it"), replay.clone());
                    }
                    holder.insert(*n, *peer);
                    // the peer must have announced a range containing n at some point before (the value it saw was current at some instant)
                    let announced = evs[..idx].iter().any(|x| matches!(x, Ev::Announced { peer: p2, range } if p2 == peer && range.1.map_or(false, |l| range.0 <= *n && *n <= l)));
                    if !announced {
                        rep.violation("accepted-by-peer-without-the-block||".to_string(), format!("peer {peer} accepted block {n} which it never announced"), replay.clone());
                    }
                    // lowest first: no lower block was waiting in the queue during the whole accept call
                    if !multi {
                        let call = evs[..idx].iter().rposition(|x| matches!(x, Ev::AcceptCall { peer: p2 } if p2 == peer)).unwrap_or(0);
                        for m in 0..*n {
                            let requested_before = evs[..call].iter().any(|x| matches!(x, Ev::Requested(k) if *k == m));
                            let touched = evs[..idx].iter().any(|x| matches!(x, Ev::Accepted { n: k, .. } | Ev::CancelIssued(k) | Ev::ReturnedOk(k) | Ev::ReturnedCanceled(k) if *k == m));
                            if requested_before && !touched {
                                rep.violation("not-lowest-first||".to_string(), format!("block {n} handed to peer {peer} although the lower block {m} was waiting during the whole accept call"), replay.clone());
                            }
                            // the lower block arrived during the call: the peer must have been woken and switched to it, unless it had
                            // already decided - which is only possible if it could see block n before the lower request arrived
                            if let Some(r) = evs[call..idx].iter().position(|x| matches!(x, Ev::Requested(k) if *k == m)).map(|i| i + call) {
                                let untouched = !evs[r..idx].iter().any(|x| matches!(x, Ev::Accepted { n: k, .. } | Ev::CancelIssued(k) | Ev::ReturnedOk(k) | Ev::ReturnedCanceled(k) if *k == m));
                                let could_decide_before = evs[..r].iter().any(|x| matches!(x, Ev::Announced { peer: p2, range } if p2 == peer && range.1.map_or(false, |l| range.0 <= *n && *n <= l)));
                                if untouched && !could_decide_before {
                                    rep.violation("not-lowest-first||woken-late".to_string(), format!("block {n} handed to peer {peer}, which announced it only after the lower block {m} had been requested and was still waiting"), replay.clone());
                                }
                            }
                        }
                    }
                }
                Ev::Done { n, .. } => {
                    holder.remove(n);
                    done.insert(*n);
                }
                Ev::Failed { n, .. } => {
                    holder.remove(n);
                    rep.count("failures_injected");
                }
                Ev::CancelIssued(n) => {
                    cancelled.insert(*n);
                }
                Ev::ReturnedOk(n) => {
                    rep.count("requests_completed");
                    if !done.contains(n) {
                        rep.violation("request-returned-without-success||".to_string(), format!("request for block {n} returned Ok although no peer completed it"), replay.clone());
                    }
                }
                Ev::ReturnedCanceled(n) => {
                    rep.count("requests_cancelled");
                    if !cancelled.contains(n) {
                        rep.violation("request-cancelled-spuriously||".to_string(), format!("request for block {n} returned Canceled although its context was not cancelled"), replay.clone());
                    }
                }
                Ev::Requested(_) | Ev::AcceptCall { .. } | Ev::Announced { .. } => {}
            }
        }
        // re-acceptance after failure
        let mut failed_then: u64 = 0;
        for (i, e) in evs.iter().enumerate() {
            if let Ev::Failed { n, .. } = e {
                if evs[i + 1..].iter().any(|x| matches!(x, Ev::Accepted { n: m, .. } if m == n)) {
                    failed_then += 1;
                }
            }
        }
        rep.add("failed_requests_accepted_again", failed_then);
        rep.distinct(vcommon::hash_of(&format!("{evs:?}")));
        if rep.samples.len() < rep.max_samples && evs.len() < 40 {
            rep.sample(json!({"case": case, "peers": npeers, "events": format!("{evs:?}")}));
        }
    }
}
