//! C12 (node half) - admission monitor against a REAL node (`testonly::Instance`: the production `Network` runner,
//! TCP listener, preface, handshakes, pools and RPC services). Raw peers holding 2-5 gossip identities and 2-4
//! validator identities open, keep, duplicate and close connections in a random schedule; each kept connection is
//! probed with the ping RPC. A connection is *served* during [first successful response, last successful request].
//! Oracle (upper bounds only, hence sound under any timing):
//!   * two connections authenticated as the same identity are never served at the same time (per network),
//!   * connections of identities outside `static_inbound` served at the same time never exceed `dynamic_inbound_limit`,
//!   * a validator key outside the committee is never served on the validator network.
use std::{
    sync::{Arc, Mutex},
    time::Instant,
};

use rand::{rngs::StdRng, Rng};
use vcommon::{json, rng_for, Args, Report};
use zksync_concurrency::{ctx, limiter, scope, time};
use zksync_consensus_engine::testonly::TestEngine;
use zksync_consensus_network::{testonly, verif};
use zksync_consensus_roles::validator;

#[derive(Clone, Copy, PartialEq, Eq, Debug, PartialOrd, Ord)]
enum Net {
    Gossip,
    Validator,
}

struct Conn {
    net: Net,
    ident: usize,
    ping: Arc<verif::PingClient>,
    close: Option<tokio::sync::oneshot::Sender<()>>,
    /// (request sent, response received) of every successful ping
    ok: Arc<Mutex<Vec<(Instant, Instant)>>>,
    ended: Arc<std::sync::atomic::AtomicBool>,
}

impl Conn {
    /// Interval during which the node certainly served this connection.
    fn served(&self) -> Option<(Instant, Instant)> {
        let ok = self.ok.lock().unwrap();
        let first = ok.first()?.1;
        let last = ok.last()?.0;
        (last > first).then_some((first, last))
    }
}

fn run_case(rep: &mut Report, args: &Args, case: u64, rt: &tokio::runtime::Runtime) {
    let mut rng: StdRng = rng_for(args.seed, args.shard, 120, case);
    let nval = rng.gen_range(2..=4usize);
    let setup = validator::testonly::Setup::new(&mut rng, nval);
    let mut cfg = testonly::new_configs(&mut rng, &setup, 0)[0].clone();
    let limit = [0usize, 1, 1, 2, 3][rng.gen_range(0..5)];
    cfg.gossip.dynamic_inbound_limit = limit;
    // gossip identities; some of them are configured (static) peers of the node
    let nid = rng.gen_range(2..=5usize);
    let idents: Vec<_> = (0..nid).map(|_| testonly::new_fullnode(&mut rng, &cfg)).collect();
    let is_static: Vec<bool> = (0..nid).map(|_| rng.gen_bool(0.3)).collect();
    for (i, c) in idents.iter().enumerate() {
        if is_static[i] {
            cfg.gossip.static_inbound.insert(c.gossip.key.public());
        }
    }
    // validator identities: committee members other than the node itself, plus outsiders
    let mut vkeys: Vec<(validator::SecretKey, bool)> = setup.validator_keys[1..].iter().map(|k| (k.clone(), true)).collect();
    for _ in 0..rng.gen_range(1..=2) {
        vkeys.push((rng.gen(), false));
    }
    // 30 %: the node is a standby validator - it holds a validator key that is not (yet) in the committee; its validator
    // network must still admit committee members only
    let standby = rng.gen_bool(0.3);
    let standby_key: validator::SecretKey = rng.gen();
    if standby {
        cfg.validator_key = Some(standby_key.clone());
        rep.count("node_cases_with_standby_validator_node");
    }
    let node_gossip_key = cfg.gossip.key.public();
    let node_validator_key = if standby { standby_key.public() } else { setup.validator_keys[0].public() };
    let genesis = setup.genesis_hash();
    let addr = *cfg.server_addr;
    let nops = rng.gen_range(10..28usize);
    let conns: Mutex<Vec<Conn>> = Mutex::default();
    let mut trace: Vec<String> = vec![];
    let t0 = Instant::now();
    let fut = async {
        let root = ctx::root();
        let (conns, trace, rng) = (&conns, &mut trace, &mut rng);
        let (idents, vkeys, setup, cfg) = (&idents, &vkeys, &setup, &cfg);
        let (node_gossip_key, node_validator_key) = (&node_gossip_key, &node_validator_key);
        let r: anyhow::Result<()> = scope::run!(&root, |ctx, s| async move {
            let engine = TestEngine::new(ctx, setup).await;
            s.spawn_bg(engine.runner.run(ctx));
            let (_node, runner) = testonly::Instance::new(cfg.clone(), engine.manager.clone());
            s.spawn_bg(async move {
                let _ = runner.run(ctx).await;
                Ok(())
            });
            // wait for the listener
            for _ in 0..200 {
                if verif::tcp_connect(ctx, addr).await.is_ok() {
                    break;
                }
                let _ = ctx.sleep(time::Duration::milliseconds(20)).await;
            }
            async fn probe(ctx: &ctx::Ctx, conns: &Mutex<Vec<Conn>>, rng: &mut StdRng) {
                let targets: Vec<(Arc<verif::PingClient>, Arc<Mutex<Vec<(Instant, Instant)>>>, [u8; 32])> =
                    conns.lock().unwrap().iter().filter(|c| c.close.is_some() && !c.ended.load(std::sync::atomic::Ordering::SeqCst)).map(|c| (c.ping.clone(), c.ok.clone(), rng.gen())).collect();
                let _: Result<(), ()> = scope::run!(ctx, |ctx, s| async move {
                    for (ping, ok, data) in targets {
                        s.spawn(async move {
                            let sent = Instant::now();
                            let c = ctx.with_timeout(time::Duration::milliseconds(2500));
                            if let Ok(resp) = ping.call(&c, data).await {
                                if resp == data {
                                    ok.lock().unwrap().push((sent, Instant::now()));
                                }
                            }
                            Ok(())
                        });
                    }
                    Ok(())
                })
                .await;
            }
            for op in 0..nops {
                match rng.gen_range(0..10) {
                    0..=4 => {
                        // connect (and keep) as some identity
                        let net = if rng.gen_bool(0.6) { Net::Gossip } else { Net::Validator };
                        let ident = match net {
                            Net::Gossip => rng.gen_range(0..idents.len()),
                            Net::Validator => rng.gen_range(0..vkeys.len()),
                        };
                        let endpoint = if net == Net::Gossip { verif::Endpoint::GossipNet } else { verif::Endpoint::ConsensusNet };
                        let c = ctx.with_timeout(time::Duration::seconds(5));
                        let Ok(mut stream) = verif::preface_connect(&c, addr, endpoint).await else {
                            trace.push(format!("{op}: connect {net:?}/{ident}: tcp/preface failed"));
                            continue;
                        };
                        let hs = match net {
                            Net::Gossip => verif::gossip_handshake_outbound(&c, &idents[ident], genesis, &mut stream, node_gossip_key).await.map(|_| ()),
                            Net::Validator => verif::consensus_handshake_outbound(&c, &vkeys[ident].0, genesis, &mut stream, node_validator_key).await,
                        };
                        if hs.is_err() {
                            trace.push(format!("{op}: connect {net:?}/{ident}: handshake refused"));
                            continue;
                        }
                        trace.push(format!("{op}: connect {net:?}/{ident}: handshake done"));
                        let ping = Arc::new(verif::PingClient::new(ctx, limiter::Rate::INF));
                        let (close, closed) = tokio::sync::oneshot::channel::<()>();
                        let ended = Arc::new(std::sync::atomic::AtomicBool::new(false));
                        conns.lock().unwrap().push(Conn { net, ident, ping: ping.clone(), close: Some(close), ok: Arc::default(), ended: ended.clone() });
                        s.spawn_bg(async move {
                            // the connection lives in its own scope: when `closed` fires the scope cancels the service, which drops the stream
                            let _: Result<(), ()> = scope::run!(ctx, |ctx, s| async move {
                                s.spawn_bg(async move {
                                    let _ = verif::run_rpc_client(ctx, stream, None, Some(&ping)).await;
                                    ended.store(true, std::sync::atomic::Ordering::SeqCst);
                                    Ok(())
                                });
                                let _ = closed.await;
                                Ok(())
                            })
                            .await;
                            Ok(())
                        });
                    }
                    5 | 6 => {
                        // close one of the kept connections
                        let mut g = conns.lock().unwrap();
                        let open: Vec<usize> = g.iter().enumerate().filter(|(_, c)| c.close.is_some()).map(|(i, _)| i).collect();
                        if !open.is_empty() {
                            let i = open[rng.gen_range(0..open.len())];
                            let _ = g[i].close.take().unwrap().send(());
                            trace.push(format!("{op}: close #{i}"));
                        }
                    }
                    7 => {
                        let _ = ctx.sleep(time::Duration::milliseconds(rng.gen_range(1..40))).await;
                    }
                    _ => {
                        probe(ctx, conns, rng).await;
                        trace.push(format!("{op}: probe"));
                    }
                }
            }
            // final double probe: every connection that is still served gets a non-empty interval
            probe(ctx, conns, rng).await;
            let _ = ctx.sleep(time::Duration::milliseconds(1100)).await;
            probe(ctx, conns, rng).await;
            for c in conns.lock().unwrap().iter_mut() {
                if let Some(cl) = c.close.take() {
                    let _ = cl.send(());
                }
            }
            Ok(())
        })
        .await;
        let _ = r;
    };
    let finished = rt.block_on(crate::transport::leak_on_timeout(120, fut)).is_some();
    rep.evaluations += 1;
    rep.count("node_cases");
    if !finished {
        // real sockets and a real clock: a stuck case is never a verdict
        rep.inconclusive(format!("node admission case {case} hit the 120 s wall-clock watchdog"));
        return;
    }
    let conns = conns.into_inner().unwrap();
    let replay = json!({"case": case, "kind": "node", "trace": trace, "dynamic_inbound_limit": limit, "static": is_static});
    rep.add("connections_with_completed_handshake", conns.len() as u64);
    let served: Vec<(&Conn, (Instant, Instant))> = conns.iter().filter_map(|c| c.served().map(|iv| (c, iv))).collect();
    rep.add("connections_observed_served", served.len() as u64);
    rep.add("connections_never_served", (conns.len() - served.len()) as u64);
    rep.add("gossip_connections_served", served.iter().filter(|(c, _)| c.net == Net::Gossip).count() as u64);
    rep.add("validator_connections_served", served.iter().filter(|(c, _)| c.net == Net::Validator).count() as u64);
    rep.add("outsider_validator_connections_attempted", conns.iter().filter(|c| c.net == Net::Validator && !vkeys[c.ident].1).count() as u64);
    let overlap = |a: (Instant, Instant), b: (Instant, Instant)| a.0 <= b.1 && b.0 <= a.1;
    let ms = |t: Instant| t.duration_since(t0).as_millis();
    for (i, (a, ia)) in served.iter().enumerate() {
        if a.net == Net::Validator && !vkeys[a.ident].1 {
            rep.violation("non-member-served-on-validator-network||node".to_string(), format!("validator key #{} is not in the committee, yet its connection was served during [{} ms, {} ms]", a.ident, ms(ia.0), ms(ia.1)), replay.clone());
        }
        for (b, ib) in served.iter().skip(i + 1) {
            if a.net == b.net && a.ident == b.ident && overlap(*ia, *ib) {
                rep.violation(
                    format!("two-connections-served-for-one-identity||node/{:?}", a.net),
                    format!("{:?} identity #{}: one connection served during [{} ms, {} ms] and another during [{} ms, {} ms]", a.net, a.ident, ms(ia.0), ms(ia.1), ms(ib.0), ms(ib.1)),
                    replay.clone(),
                );
            }
        }
        // quota: at the start of every interval count the non-configured gossip connections served at that instant
        if a.net == Net::Gossip && !is_static[a.ident] {
            let at = ia.0;
            let n = served.iter().filter(|(c, iv)| c.net == Net::Gossip && !is_static[c.ident] && iv.0 <= at && at <= iv.1).count();
            rep.max("max_non_configured_gossip_connections_served_at_once", n as u64);
            if n > limit {
                rep.violation("quota-exceeded||node".to_string(), format!("{n} connections of non-configured identities served at {} ms, dynamic_inbound_limit = {limit}", ms(at)), replay.clone());
            }
        }
    }
    let dup_attempts = {
        let mut k = 0;
        for (i, a) in conns.iter().enumerate() {
            if conns.iter().take(i).any(|b| b.net == a.net && b.ident == a.ident) {
                k += 1;
            }
        }
        k
    };
    rep.add("repeat_connections_of_an_identity", dup_attempts);
    if limit == 0 { rep.count("node_cases_with_zero_quota"); }
    rep.distinct(vcommon::hash_of(&(args.shard, case, conns.len(), served.len())));
    if rep.samples.len() < rep.max_samples {
        rep.sample(json!({"case": case, "dynamic_inbound_limit": limit, "gossip_identities": nid, "static": is_static, "validator_identities(member)": vkeys.iter().map(|v| v.1).collect::<Vec<_>>(),
            "handshakes_completed": conns.len(), "served": served.len(), "trace": trace.iter().take(12).collect::<Vec<_>>()}));
    }
}

pub fn run(args: &Args, rep: &mut Report) {
    rep.rule = "one evaluation = one real node (production Network runner on a localhost listener) against which raw peers with 2-5 gossip identities (some configured as static peers) \
                and 2-4 validator identities (committee members and outsiders) run a random schedule of 10-27 connect / duplicate / close / pause / probe operations; every kept \
                connection is probed with the ping RPC and its served interval is checked against: one connection per identity and network, quota for non-configured identities, \
                no outsider on the validator network; distinct = distinct (case, connections, served)"
        .into();
    let n: u64 = args.extra_u64("cases").unwrap_or(args.pick(8, 150));
    let only: Option<u64> = args.replay.as_ref().map(|p| {
        let v: vcommon::Value = vcommon::serde_json::from_slice(&std::fs::read(p).unwrap()).unwrap();
        v["replay"]["case"].as_u64().unwrap()
    });
    let rt = tokio::runtime::Builder::new_multi_thread().worker_threads(2).enable_all().build().unwrap();
    for case in 0..n {
        if let Some(o) = only { if o != case { continue; } } else if !rep.within_budget() { rep.count("stopped_by_budget"); break; }
        run_case(rep, args, case, &rt);
    }
    std::mem::forget(rt);
}
