//! C15(b) - per-connection RPC rate and in-flight limits, regardless of how the remote side behaves.
//! Real `rpc::Service` (ping server: burst 2 / 1 s; consensus server: configurable rate, INFLIGHT 3) over
//! the scripted transport, manual clock. Clients: (i) the real client code with an infinite rate firing
//! calls without ever waiting, (ii) a raw mux peer that opens every stream as fast as the wire allows.
use std::sync::{Arc, Mutex};

use rand::{rngs::StdRng, Rng};
use tokio::io::{AsyncReadExt, AsyncWriteExt};
use vcommon::{json, rng_for, Args, Report};
use zksync_concurrency::{ctx, limiter, scope, time};
use zksync_consensus_network::verif::{self, ConsensusProbe};
use zksync_consensus_roles::validator;

use crate::transport::{duplex, Script, Tamper};

#[derive(Default)]
struct Probe {
    /// (start ns, end ns or -1)
    calls: Mutex<Vec<(i64, i64)>>,
    running: Mutex<i64>,
    max_running: Mutex<i64>,
    hold_yields: usize,
    t0: Mutex<Option<time::Instant>>,
}

#[async_trait::async_trait]
impl ConsensusProbe for Probe {
    async fn on_request(&self, ctx: &ctx::Ctx, _msg: validator::Signed<validator::ConsensusMsg>) {
        let t0 = *self.t0.lock().unwrap().get_or_insert(ctx.now());
        let now = (ctx.now() - t0).whole_nanoseconds() as i64;
        let idx = {
            let mut c = self.calls.lock().unwrap();
            c.push((now, -1));
            c.len() - 1
        };
        {
            let mut r = self.running.lock().unwrap();
            *r += 1;
            let mut m = self.max_running.lock().unwrap();
            *m = (*m).max(*r);
        }
        for _ in 0..self.hold_yields {
            tokio::task::yield_now().await;
        }
        let end = (ctx.now() - t0).whole_nanoseconds() as i64;
        self.calls.lock().unwrap()[idx].1 = end;
        *self.running.lock().unwrap() -= 1;
    }
    fn max_req_size(&self) -> usize {
        100_000
    }
}

fn check(rep: &mut Report, probe: &Probe, burst: usize, refresh_ns: i64, replay: vcommon::Value) {
    let calls = probe.calls.lock().unwrap().clone();
    rep.add("handler_invocations", calls.len() as u64);
    let maxr = *probe.max_running.lock().unwrap();
    rep.max("max_concurrent_handlers", maxr as u64);
    if maxr > verif::CONSENSUS_INFLIGHT as i64 {
        rep.violation("inflight-limit-exceeded||".to_string(), format!("{maxr} consensus handlers ran concurrently, limit {}", verif::CONSENSUS_INFLIGHT), replay.clone());
    }
    if refresh_ns <= 0 {
        return;
    }
    let mut starts: Vec<i64> = calls.iter().map(|c| c.0).collect();
    starts.sort();
    for i in 0..starts.len() {
        for j in i..starts.len() {
            let t = (starts[j] - starts[i]) as u128;
            let n = (j - i + 1) as u128;
            let bound = burst as u128 + t / refresh_ns as u128 + 1;
            rep.count("rpc_windows_checked");
            if n > bound {
                rep.violation("rpc-rate-exceeded||".to_string(), format!("{n} requests started within {t} ns; burst {burst}, refresh {refresh_ns} ns allows {bound}"), replay.clone());
                return;
            }
        }
    }
}

fn run_real_client(rep: &mut Report, seed: u64, rng: &mut StdRng) {
    let burst = [1usize, 2, 5][rng.gen_range(0..3)];
    let refresh_ms = [0i64, 10, 100][rng.gen_range(0..3)];
    let ncalls = rng.gen_range(5..40usize);
    let idle_periods = if rng.gen_bool(0.5) { rng.gen_range(3..25usize) } else { 0 };
    if idle_periods > 0 { rep.count("rpc_cases_flooding_after_an_idle_period"); }
    let probe = Arc::new(Probe { hold_yields: rng.gen_range(0..30), ..Default::default() });
    let rt = tokio::runtime::Builder::new_current_thread().build().unwrap();
    let msg: validator::Signed<validator::ConsensusMsg> = rng.gen();
    let script = Script { read_cap: [0usize, 7, 1000][rng.gen_range(0..3)], pending_permille: [0, 100][rng.gen_range(0..2)], ..Default::default() };
    let (a, b, _st) = duplex(seed, script, script, Tamper::None, false);
    let p2 = probe.clone();
    let completed = rt.block_on(async {
        let clock = ctx::ManualClock::new();
        let root = ctx::test_root(&clock);
        let rate = limiter::Rate { burst, refresh: time::Duration::milliseconds(refresh_ms) };
        let done = Arc::new(Mutex::new(0usize));
        let d2 = done.clone();
        let client = verif::ConsensusClient::new(&root, limiter::Rate::INF);
        let client = &client;
        let clock = &clock;
        let _: Result<(), ()> = scope::run!(&root, |ctx, s| async move {
            let probe = p2;
            s.spawn_bg(async move {
                let _ = verif::run_rpc_server(ctx, a, Some((&*probe, rate))).await;
                Ok(())
            });
            s.spawn_bg(async move {
                let _ = verif::run_rpc_client(ctx, b, Some(client), None).await;
                Ok(())
            });
            // optionally stay idle for several refresh periods first: every server stream gets primed and the bucket refills,
            // and only then the flood starts (permits of streams that wait for the peer must stay reserved)
            for _ in 0..idle_periods {
                for _ in 0..50 {
                    tokio::task::yield_now().await;
                }
                clock.advance(time::Duration::milliseconds(refresh_ms.max(1)));
            }
            // fire every call at once, never waiting
            let mut hs = vec![];
            for _ in 0..ncalls {
                let m = msg.clone();
                let d = d2.clone();
                hs.push(s.spawn(async move {
                    if client.call(ctx, m).await.is_ok() {
                        *d.lock().unwrap() += 1;
                    }
                    Ok(())
                }));
            }
            // drive virtual time
            for _ in 0..(ncalls * 3 + 10) {
                for _ in 0..200 {
                    tokio::task::yield_now().await;
                }
                clock.advance(time::Duration::milliseconds(refresh_ms.max(1)));
            }
            Ok(())
        })
        .await;
        let n = *done.lock().unwrap();
        n
    });
    rep.evaluations += 1;
    rep.count("rpc_real_client_cases");
    rep.add("rpc_calls_completed", completed as u64);
    if completed < ncalls {
        rep.count("rpc_cases_with_unfinished_calls");
    }
    check(rep, &probe, burst, refresh_ms * 1_000_000, json!({"kind": "real-client", "seed": seed}));
    rep.distinct(vcommon::hash_of(&(seed, burst, refresh_ms, ncalls)));
}

/// Raw peer: speaks the mux wire format by hand, opens all consensus streams immediately, sends a valid request and
/// CLOSE on each, over and over, never reading anything.
fn run_raw_client(rep: &mut Report, seed: u64, rng: &mut StdRng) {
    let burst = [1usize, 2, 3][rng.gen_range(0..3)];
    let refresh_ms = [10i64, 100][rng.gen_range(0..2)];
    let probe = Arc::new(Probe { hold_yields: rng.gen_range(0..10), ..Default::default() });
    let rt = tokio::runtime::Builder::new_current_thread().build().unwrap();
    let msg: validator::Signed<validator::ConsensusMsg> = rng.gen();
    let req = verif::wire_encode::consensus_req(msg);
    let (a, mut b, _st) = duplex(seed, Script::default(), Script::default(), Tamper::None, false);
    let p2 = probe.clone();
    let rounds = rng.gen_range(3..15usize);
    let idle_periods = if rng.gen_bool(0.5) { rng.gen_range(3..25usize) } else { 0 };
    if idle_periods > 0 { rep.count("rpc_cases_flooding_after_an_idle_period"); }
    rt.block_on(async {
        let clock = ctx::ManualClock::new();
        let root = ctx::test_root(&clock);
        let rate = limiter::Rate { burst, refresh: time::Duration::milliseconds(refresh_ms) };
        let _: Result<(), ()> = scope::run!(&root, |ctx, s| async move {
            let probe = p2;
            s.spawn_bg(async move {
                let _ = verif::run_rpc_server(ctx, a, Some((&*probe, rate))).await;
                Ok(())
            });
            // handshake: we "accept" (client side of the rpc) consensus + ping capability with generous limits
            let hs = verif::encode_mux_handshake(&[(verif::CAP_CONSENSUS, 1000), (verif::CAP_PING, 1000)], &[]);
            b.write_all(&(hs.len() as u32).to_le_bytes()).await.unwrap();
            b.write_all(&hs).await.unwrap();
            let mut l = [0u8; 4];
            b.read_exact(&mut l).await.unwrap();
            let mut peer = vec![0u8; u32::from_le_bytes(l) as usize];
            b.read_exact(&mut peer).await.unwrap();
            // a reader task that discards everything the server sends (otherwise the server's writer would block)
            let (mut rd, mut wr) = tokio::io::split(b);
            s.spawn_bg(async move {
                let mut buf = [0u8; 4096];
                while let Ok(n) = rd.read(&mut buf).await {
                    if n == 0 {
                        break;
                    }
                }
                Ok(())
            });
            // the server's streams are the CONNECT side, so our frames carry the ACCEPT kind (bit 13 clear);
            // ids 0..2 are the consensus streams or the ping stream depending on capability order: use all of 0..4
            let frame = {
                let mut f = (req.len() as u32).to_le_bytes().to_vec();
                f.extend(&req);
                f
            };
            for _ in 0..idle_periods {
                for _ in 0..50 {
                    tokio::task::yield_now().await;
                }
                clock.advance(time::Duration::milliseconds(refresh_ms));
            }
            for _ in 0..rounds {
                for id in 0u16..4 {
                    let open = id; // OPEN | ACCEPT | id
                    let data = 0b0100_0000_0000_0000u16 | id;
                    let close = 0b1000_0000_0000_0000u16 | id;
                    let _ = wr.write_all(&open.to_le_bytes()).await;
                    let _ = wr.write_all(&data.to_le_bytes()).await;
                    let _ = wr.write_all(&(frame.len() as u16).to_le_bytes()).await;
                    let _ = wr.write_all(&frame).await;
                    let _ = wr.write_all(&close.to_le_bytes()).await;
                }
                for _ in 0..100 {
                    tokio::task::yield_now().await;
                }
                clock.advance(time::Duration::milliseconds(refresh_ms / 3 + 1));
            }
            for _ in 0..20 {
                for _ in 0..100 {
                    tokio::task::yield_now().await;
                }
                clock.advance(time::Duration::milliseconds(refresh_ms));
            }
            Ok(())
        })
        .await;
    });
    rep.evaluations += 1;
    rep.count("rpc_raw_client_cases");
    check(rep, &probe, burst, refresh_ms * 1_000_000, json!({"kind": "raw-client", "seed": seed}));
    rep.distinct(vcommon::hash_of(&(seed, burst, refresh_ms, rounds, "raw")));
}

pub fn run(args: &Args, rep: &mut Report) {
    rep.rule = "one evaluation = one connection to the real rpc::Service (ping + consensus server with a generated rate) over the scripted transport on a manual clock: \
                the real client firing 5-40 calls at once, or a raw mux peer re-opening every stream as fast as the wire allows without reading; handler start times \
                are checked against burst + T/r + 1 for every window and concurrent handlers against INFLIGHT; distinct = distinct configurations"
        .into();
    let n = args.pick(20u64, 600);
    for case in 0..n {
        if !rep.within_budget() { rep.count("stopped_by_budget"); break; }
        let mut rng = rng_for(args.seed, args.shard, 150, case);
        let seed = rng.gen();
        if case % 2 == 0 {
            run_real_client(rep, seed, &mut rng);
        } else {
            run_raw_client(rep, seed, &mut rng);
        }
    }
}
