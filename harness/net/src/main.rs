//! E4: network adversaries over scripted transports, through the `verif` facade of the network crate.
mod alloc;
mod c09;
mod c10;
mod c12;
mod c12n;
mod nodea;
mod nodeg;
mod nodel;
mod c13;
mod c14;
mod c15;
mod c18;
mod c19;
mod pool;
mod transport;

use vcommon::{Args, Report};

#[global_allocator]
static GLOBAL: alloc::Counting = alloc::Counting;

fn main() {
    let args = Args::parse();
    vcommon::install_quiet_panic_hook();
    let mut rep = Report::new(&args);
    let mode = args.extra.get("mode").cloned().unwrap_or_default();
    match (args.prop.as_str(), mode.as_str()) {
        (_, "node-gossip") => nodeg::run(&args, &mut rep),
        (_, "node-absurd") => nodea::run(&args, &mut rep),
        (_, "node-limits") => nodel::run(&args, &mut rep),
        ("C13", _) => c13::run(&args, &mut rep),
        ("C14", _) => c14::run(&args, &mut rep),
        ("C15", _) => c15::run(&args, &mut rep),
        ("C18", _) => c18::run(&args, &mut rep),
        ("C19", _) => c19::run(&args, &mut rep),
        ("C09", _) => c09::run(&args, &mut rep),
        ("C10", "mux-flood") => c14::run(&args, &mut rep),
        ("C10", _) => c10::run(&args, &mut rep),
        ("C12", "node") => c12n::run(&args, &mut rep),
        ("C12", "pool") => pool::run(&args, &mut rep),
        ("C12", _) => c12::run(&args, &mut rep),
        (p, m) => panic!("unknown property/mode {p}/{m}"),
    }
    std::process::exit(rep.finish());
}
