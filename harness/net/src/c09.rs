//! C09 (network half) - the crate-private wire messages (RPC requests/responses, handshakes, preface, mux
//! handshake) through the verif facade: canonical fix-point, alternative serialisations, construction order.
use rand::Rng;
use vcommon::{hex, json, rng_for, Args, Report};
use zksync_consensus_network::verif;
use zksync_consensus_roles::{node, validator};

const STYLES: [vwire::Style; 4] = [
    vwire::Style { shuffle: true, packing: 0, overlong_varints: false },
    vwire::Style { shuffle: true, packing: 1, overlong_varints: false },
    vwire::Style { shuffle: false, packing: 2, overlong_varints: false },
    vwire::Style { shuffle: true, packing: 3, overlong_varints: true },
];

pub fn run(args: &Args, rep: &mut Report) {
    rep.rule = "one evaluation = one value of a crate-private network message: encode (from public constituents) -> decode -> re-encode must be a fix-point and equal the \
                independent canonical encoder; alternative serialisations decode to the same value (debug form) and re-encode to the same bytes; equal values built \
                repeatedly encode identically; distinct = distinct (kind, bytes)"
        .into();
    let rounds = args.pick(150, 5000);
    for round in 0..rounds {
        if !rep.within_budget() { rep.count("stopped_by_budget"); break; }
        let rng = &mut rng_for(args.seed, args.shard, 91, round);
        let nk: node::SecretKey = rng.gen();
        let vk: validator::SecretKey = rng.gen();
        let caps_a: Vec<(u64, u32)> = (0..rng.gen_range(0..6)).map(|i| (i as u64 * 3 + rng.gen_range(0..3), rng.gen())).collect();
        let caps_c: Vec<(u64, u32)> = (0..rng.gen_range(0..6)).map(|i| (i as u64 * 5 + rng.gen_range(0..5), rng.gen())).collect();
        let values: Vec<(&str, Vec<u8>)> = vec![
            ("rpc.consensus.Req", verif::wire_encode::consensus_req(rng.gen())),
            ("rpc.get_block.Req", verif::wire_encode::get_block_req(validator::BlockNumber([0, 1, u64::MAX, rng.gen()][rng.gen_range(0..4)]))),
            ("rpc.get_block.Resp", verif::wire_encode::get_block_resp(match rng.gen_range(0..3) { 0 => None, 1 => Some(validator::Block::FinalV2(rng.gen())), _ => Some(validator::Block::PreGenesis(rng.gen())) })),
            ("rpc.ping.Req", verif::wire_encode::ping_req(rng.gen())),
            ("rpc.ping.Resp", verif::wire_encode::ping_req(rng.gen())),
            ("rpc.push_block_store_state.Req", verif::wire_encode::push_block_store_state_req(rng.gen())),
            ("rpc.push_tx.Req", verif::wire_encode::push_tx_req(rng.gen())),
            ("rpc.push_validator_addrs.Req", verif::wire_encode::push_validator_addrs_req((0..rng.gen_range(0..4)).map(|_| std::sync::Arc::new(rng.gen())).collect())),
            ("gossip.Handshake", verif::encode_gossip_handshake(nk.sign_msg(node::SessionId((0..rng.gen_range(0..40)).map(|_| rng.gen()).collect())), rng.gen(), rng.gen())),
            ("consensus.Handshake", verif::encode_consensus_handshake(vk.sign_msg(node::SessionId((0..rng.gen_range(0..40)).map(|_| rng.gen()).collect())), rng.gen())),
            ("mux.Handshake", verif::encode_mux_handshake(&caps_a, &caps_c)),
        ];
        for (kind, bytes) in values {
            rep.evaluations += 1;
            rep.count(&format!("values_{kind}"));
            let desc = verif::wire_descriptor(kind).unwrap();
            let replay = json!({"kind": kind, "bytes": hex(&bytes[..bytes.len().min(4096)])});
            let (dbg, re) = match verif::wire_decode(kind, &bytes) {
                Ok(x) => x,
                Err(e) => {
                    rep.violation(format!("roundtrip-decode-error|{kind}|"), e, replay);
                    continue;
                }
            };
            if re != bytes {
                rep.violation(format!("reencoding-differs|{kind}|"), format!("decode(encode(x)) re-encodes to different bytes ({} vs {}): {}", hex(&re[..re.len().min(80)]), hex(&bytes[..bytes.len().min(80)]), &dbg[..dbg.len().min(200)]), replay.clone());
            }
            let tree = match vwire::parse(&bytes, &desc) {
                Ok(t) => t,
                Err(e) => {
                    rep.violation(format!("oracle-cannot-parse-encoding|{kind}|"), e, replay);
                    continue;
                }
            };
            if vwire::canonical(&tree) != bytes {
                rep.violation(format!("not-canonical|{kind}|"), "encode() is not the canonical form of its own content".to_string(), replay.clone());
            }
            for st in STYLES {
                let a = vwire::emit(&tree, &desc, st, rng);
                rep.count("alternative_serialisations");
                match verif::wire_decode(kind, &a) {
                    Ok((d2, r2)) => {
                        if d2 != dbg {
                            rep.violation(format!("alt-serialisation-decodes-differently|{kind}|"), format!("style {st:?}"), replay.clone());
                        }
                        if r2 != re {
                            rep.violation(format!("alt-serialisation-normalises-differently|{kind}|"), format!("style {st:?}"), replay.clone());
                        }
                    }
                    Err(e) => rep.violation(format!("alt-serialisation-rejected|{kind}|"), format!("style {st:?}: {e}"), replay.clone()),
                }
            }
            rep.distinct(vcommon::hash_of(&(kind, vcommon::hash_bytes(&bytes))));
        }
        // equal values built repeatedly (and with permuted capability lists) encode identically
        let first = verif::encode_mux_handshake(&caps_a, &caps_c);
        let mut rev_a = caps_a.clone();
        rev_a.reverse();
        rep.evaluations += 1;
        rep.count("construction_order_cases");
        for _ in 0..4 {
            if verif::encode_mux_handshake(&rev_a, &caps_c) != first || verif::encode_mux_handshake(&caps_a, &caps_c) != first {
                rep.violation("construction-order-dependent|mux.Handshake|".to_string(), format!("the same capability limits {caps_a:?}/{caps_c:?} encode to different bytes from one call to the next"), json!({"kind": "mux.Handshake"}));
                break;
            }
        }
    }
}
