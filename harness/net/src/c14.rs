//! C14 - multiplexed streams: isolation, order, flow control.
//! (i) two real muxes over the scripted transport, many concurrent transient streams with
//! self-identifying payloads; (ii) a raw peer written here that ignores flow control.
use std::{
    collections::BTreeMap,
    sync::{
        atomic::{AtomicI64, AtomicU64, Ordering},
        Arc, Mutex,
    },
};

use rand::{rngs::StdRng, Rng};
use tokio::io::{AsyncReadExt, AsyncWriteExt};
use vcommon::{json, rng_for, Args, Report};
use zksync_concurrency::{ctx, limiter, scope};
use zksync_consensus_network::verif::{self, MuxConfig, StreamQueue};

use crate::transport::{duplex, Script, Tamper};

/// 8-byte self-identifying word: (direction, capability, stream serial, word index)
fn word(dir: u8, cap: u8, serial: u32, idx: u32) -> [u8; 8] {
    let mut w = [0u8; 8];
    w[0] = dir;
    w[1] = cap;
    w[2..5].copy_from_slice(&serial.to_le_bytes()[..3]);
    w[5..8].copy_from_slice(&idx.to_le_bytes()[..3]);
    w
}

fn payload(dir: u8, cap: u8, serial: u32, nwords: u32) -> Vec<u8> {
    let mut v = Vec::with_capacity(nwords as usize * 8);
    for i in 0..nwords {
        v.extend(word(dir, cap, serial, i));
    }
    v
}

#[derive(Debug, Clone)]
enum Ev {
    ClientOpened { cap: u8, serial: u32 },
    ClientClosedWrite { serial: u32, bytes: usize },
    ServerAccepted { cap: u8 },
    ServerEos { serial: u32, bytes: usize, ok: bool },
    ServerResponded { serial: u32, bytes: usize },
    ClientGotResponse { serial: u32, bytes: usize, ok: bool, eos: bool },
    ServerDroppedEarly { serial: u32 },
}

struct Shared {
    log: Mutex<Vec<Ev>>,
    violations: Mutex<Vec<(String, String)>>,
    open_client: Vec<AtomicI64>,
    open_server: Vec<AtomicI64>,
    max_open: Vec<AtomicI64>,
    serial: AtomicU64,
}

impl Shared {
    fn fail(&self, sig: &str, d: String) {
        let mut v = self.violations.lock().unwrap();
        if v.iter().filter(|x| x.0 == sig).count() < 3 {
            v.push((sig.into(), d));
        }
    }
    fn ev(&self, e: Ev) {
        self.log.lock().unwrap().push(e);
    }
}

/// verifies that `data` is the word sequence (dir, cap, serial, start..) - complete words only, in order
fn verify_words(data: &[u8], dir: u8, cap: u8, serial: u32, start: u32) -> Result<u32, String> {
    if data.len() % 8 != 0 {
        return Err(format!("length {} is not a multiple of the word size", data.len()));
    }
    for (k, chunk) in data.chunks(8).enumerate() {
        let want = word(dir, cap, serial, start + k as u32);
        if chunk != want {
            return Err(format!("word {k}: got {chunk:?} (dir {}, cap {}, serial {}, idx {}), want dir {dir} cap {cap} serial {serial} idx {}", chunk[0], chunk[1], u32::from_le_bytes([chunk[2], chunk[3], chunk[4], 0]), u32::from_le_bytes([chunk[5], chunk[6], chunk[7], 0]), start + k as u32));
        }
    }
    Ok(start + (data.len() / 8) as u32)
}

struct CaseCfg {
    caps: Vec<(u32, u32)>, // (client-side limit, server-side limit) per capability
    rev_caps: Vec<(u32, u32)>, // the same for the reverse direction (clients on B)
    mux_a: MuxConfig,
    mux_b: MuxConfig,
    script_a: Script,
    script_b: Script,
    clients_per_cap: usize,
    streams_per_client: usize,
    /// OPEN rate limiter bursts per capability (forward caps, then reverse caps), one per side; None = unlimited.
    /// The limiter is local (never announced): it must not influence how stream ids are partitioned.
    bursts: Vec<(Option<usize>, Option<usize>)>,
}

fn gen_cfg(rng: &mut StdRng) -> CaseCfg {
    let ncaps = rng.gen_range(2..=4);
    let caps = (0..ncaps).map(|_| ([0u32, 1, 1, 2, 3, 5][rng.gen_range(0..6)], [0u32, 1, 2, 2, 3, 7][rng.gen_range(0..6)])).collect();
    let mc = |rng: &mut StdRng| {
        let frame = [16u64, 100, 1000, 16384][rng.gen_range(0..4)];
        MuxConfig { read_frame_size: frame, read_buffer_size: frame * rng.gen_range(1..10), read_frame_count: rng.gen_range(1..20), write_frame_size: [8u64, 100, 1000, 16384, 65535][rng.gen_range(0..5)] }
    };
    let sc = |rng: &mut StdRng| Script { read_cap: [0usize, 1, 3, 100, 5000][rng.gen_range(0..5)], write_cap: [0usize, 1, 3, 100, 5000][rng.gen_range(0..5)], pending_permille: [0, 50, 300][rng.gen_range(0..3)], capacity: [0usize, 10, 1000, 100_000][rng.gen_range(0..4)], random_chunks: rng.gen_bool(0.5) };
    let nrev = rng.gen_range(0..=2);
    let rev_caps = (0..nrev).map(|_| ([0u32, 1, 2, 3][rng.gen_range(0..4)], [1u32, 2, 2, 5][rng.gen_range(0..4)])).collect();
    let caps: Vec<(u32, u32)> = caps;
    let rev_caps: Vec<(u32, u32)> = rev_caps;
    let (mut mux_a, mut mux_b) = (mc(rng), mc(rng));
    // 60 %: enough frame slots that two well-behaved sides cannot block each other (see run_pair); 40 %: tiny limits
    let need = 2 * caps.iter().chain(rev_caps.iter()).map(|(a, b)| (*a).min(*b) as u64).sum::<u64>() + 2;
    if rng.gen_bool(0.6) {
        mux_a.read_frame_count = need + rng.gen_range(0..30);
        mux_b.read_frame_count = need + rng.gen_range(0..30);
    }
    let mut b = |rng: &mut StdRng| if rng.gen_bool(0.25) { Some(rng.gen_range(1..4usize)) } else { None };
    let bursts = (0..caps.len() + rev_caps.len()).map(|_| (b(rng), b(rng))).collect();
    CaseCfg { caps, rev_caps, mux_a, mux_b, script_a: sc(rng), script_b: sc(rng), clients_per_cap: rng.gen_range(1..6), streams_per_client: rng.gen_range(1..5), bursts }
}

#[allow(clippy::too_many_arguments)]
async fn server_loop(ctx: &ctx::Ctx, sh: &Shared, q: StreamQueue, cap: u8, slot: usize, lim: i64, limits: (u32, u32), mut r: StdRng) -> Result<(), ()> {
    let c = cap;
    loop {
        let Ok(mut st) = q.open(ctx).await else { return Ok(()) };
        let now = sh.open_server[slot].fetch_add(1, Ordering::SeqCst) + 1;
        if now > lim {
            sh.fail("more-open-streams-than-both-limits-allow", format!("capability {c}: {now} streams accepted concurrently, limits {limits:?}"));
        }
        sh.ev(Ev::ServerAccepted { cap: c });
        // first word identifies the client stream
        let first = st.read_exact(ctx, 8).await.unwrap_or_default();
        if first.len() == 8 && first[0] == 1 && first[1] == c {
            let serial = u32::from_le_bytes([first[2], first[3], first[4], 0]);
            if r.gen_bool(0.1) {
                sh.ev(Ev::ServerDroppedEarly { serial });
            } else {
                let mut idx = match verify_words(&first, 1, c, serial, 0) {
                    Ok(i) => i,
                    Err(e) => {
                        sh.fail("foreign-or-reordered-data", format!("server of capability {c}, stream {serial}: {e}"));
                        0
                    }
                };
                let mut total = 8usize;
                let mut ok = true;
                loop {
                    let want = [8usize, 16, 24, 800, 8000][r.gen_range(0..5)];
                    let chunk = match st.read_exact(ctx, want).await {
                        Ok(c) => c,
                        Err(_) => break,
                    };
                    total += chunk.len();
                    match verify_words(&chunk, 1, c, serial, idx) {
                        Ok(i) => idx = i,
                        Err(e) => {
                            ok = false;
                            sh.fail("foreign-or-reordered-data", format!("server of capability {c}, stream {serial}: {e}"));
                        }
                    }
                    if chunk.len() < want {
                        break; // end of stream
                    }
                    if r.gen_bool(0.2) {
                        tokio::task::yield_now().await;
                    }
                }
                sh.ev(Ev::ServerEos { serial, bytes: total, ok });
                let nresp = [0u32, 1, 3, 100, 5000][r.gen_range(0..5)];
                let resp = payload(2, c, serial, nresp);
                if st.write_all(ctx, &resp).await.is_ok() {
                    let _ = st.flush(ctx).await;
                    sh.ev(Ev::ServerResponded { serial, bytes: resp.len() });
                }
            }
        } else if !first.is_empty() {
            sh.fail("foreign-or-reordered-data", format!("server of capability {c}: stream starts with {first:?}"));
        }
        sh.open_server[slot].fetch_sub(1, Ordering::SeqCst);
        drop(st);
    }
}

#[allow(clippy::too_many_arguments)]
async fn client_loop(ctx: &ctx::Ctx, sh: &Shared, q: StreamQueue, cap: u8, slot: usize, lim: i64, limits: (u32, u32), streams: usize, mut r: StdRng) -> Result<(), ()> {
    let c = cap;
    for _ in 0..streams {
        let Ok(st) = q.open(ctx).await else { return Ok(()) };
        let now = sh.open_client[slot].fetch_add(1, Ordering::SeqCst) + 1;
        sh.max_open[slot].fetch_max(now, Ordering::SeqCst);
        if now > lim {
            sh.fail("more-open-streams-than-both-limits-allow", format!("capability {c}: {now} streams open concurrently on the client, limits {limits:?}"));
        }
        let serial = sh.serial.fetch_add(1, Ordering::SeqCst) as u32;
        sh.ev(Ev::ClientOpened { cap: c, serial });
        let nwords = [1u32, 2, 5, 100, 2000, 40_000][r.gen_range(0..6)];
        let data = payload(1, c, serial, nwords);
        // The two halves are driven by two tasks: the reader drains from the very start (an early CLOSE of the server must not
        // sit in the multiplexer while this side is still writing - with tiny frame-count limits on both sides that would be a
        // deadlock of the workload, not of the multiplexer), the writer writes, flushes at random and closes.
        let (mut rd, mut wr) = st.split();
        let mut rw = <StdRng as rand::SeedableRng>::seed_from_u64(r.gen());
        let mut r = <StdRng as rand::SeedableRng>::seed_from_u64(r.gen());
        let res: Result<(Vec<u8>, bool), ()> = scope::run!(ctx, |ctx, s| async move {
            let data = data;
            s.spawn(async move {
                let mut off = 0;
                let mut wrote_all = true;
                while off < data.len() {
                    let n = [8usize, 13, 100, 4096, 70_000][rw.gen_range(0..5)].min(data.len() - off);
                    if wr.write_all(ctx, &data[off..off + n]).await.is_err() {
                        wrote_all = false;
                        break;
                    }
                    off += n;
                    if rw.gen_bool(0.3) {
                        let _ = wr.flush(ctx).await;
                    }
                }
                if wrote_all {
                    sh.ev(Ev::ClientClosedWrite { serial, bytes: data.len() });
                }
                drop(wr);
                Ok(())
            });
            // read the response until end of stream
            let mut got = vec![];
            let mut eos = false;
            loop {
                let want = [8usize, 64, 4000][r.gen_range(0..3)];
                match rd.read_exact(ctx, want).await {
                    Ok(chunk) => {
                        let short = chunk.len() < want;
                        got.extend(chunk);
                        if short {
                            eos = true;
                            break;
                        }
                    }
                    Err(_) => break,
                }
            }
            drop(rd);
            Ok((got, eos))
        })
        .await;
        let Ok((got, eos)) = res else { return Ok(()) };
        let ok = verify_words(&got, 2, c, serial, 0).map_err(|e| sh.fail("foreign-or-reordered-data", format!("client of capability {c}, stream {serial}: response {e}"))).is_ok();
        sh.ev(Ev::ClientGotResponse { serial, bytes: got.len(), ok, eos });
        sh.open_client[slot].fetch_sub(1, Ordering::SeqCst);
    }
    Ok(())
}

fn run_pair(rep: &mut Report, seed: u64, cfg: &CaseCfg, replay: vcommon::Value) {
    let rt = tokio::runtime::Builder::new_current_thread().enable_time().start_paused(true).build().unwrap();
    let ncaps = cfg.caps.len() + cfg.rev_caps.len();
    let sh = Arc::new(Shared {
        log: Mutex::default(),
        violations: Mutex::default(),
        open_client: (0..ncaps).map(|_| AtomicI64::new(0)).collect(),
        open_server: (0..ncaps).map(|_| AtomicI64::new(0)).collect(),
        max_open: (0..ncaps).map(|_| AtomicI64::new(0)).collect(),
        serial: AtomicU64::new(1),
    });
    let (ta, tb, _stats) = duplex(seed, cfg.script_a, cfg.script_b, Tamper::None, false);
    let finished = rt.block_on(async {
        let root = ctx::root();
        let fut = async {
            let mut qa = BTreeMap::new(); // A: connect side (clients)
            let mut qb = BTreeMap::new(); // B: accept side (servers)
            let rate = |b: Option<usize>| match b {
                Some(burst) => limiter::Rate { burst, refresh: zksync_concurrency::time::Duration::milliseconds(1) },
                None => limiter::Rate::INF,
            };
            for (c, (la, lb)) in cfg.caps.iter().enumerate() {
                qa.insert(c as u64, StreamQueue::new(&root, *la, rate(cfg.bursts[c].0)));
                qb.insert(c as u64, StreamQueue::new(&root, *lb, rate(cfg.bursts[c].1)));
            }
            let mut qb_conn = BTreeMap::new(); // B: connect side of the reverse direction
            let mut qa_acc = BTreeMap::new(); // A: accept side of the reverse direction
            for (c, (la, lb)) in cfg.rev_caps.iter().enumerate() {
                qb_conn.insert(100 + c as u64, StreamQueue::new(&root, *la, rate(cfg.bursts[cfg.caps.len() + c].0)));
                qa_acc.insert(100 + c as u64, StreamQueue::new(&root, *lb, rate(cfg.bursts[cfg.caps.len() + c].1)));
            }
            let (qa2, qb2, qb_conn2, qa_acc2) = (qa.clone(), qb.clone(), qb_conn.clone(), qa_acc.clone());
            let (qa, qb, qb_conn, qa_acc) = (&qa, &qb, &qb_conn, &qa_acc);
            let sh = &sh;
            let r: Result<(), ()> = scope::run!(&root, |ctx, s| async move {
                s.spawn_bg(async move {
                    let _ = verif::run_mux(ctx, cfg.mux_a, qa_acc2, qa2, ta).await;
                    Ok(())
                });
                s.spawn_bg(async move {
                    let _ = verif::run_mux(ctx, cfg.mux_b, qb2, qb_conn2, tb).await;
                    Ok(())
                });
                // direction 1: clients on A (capabilities 0..), servers on B; direction 2: clients on B (capabilities 100..), servers on A
                let mut handles = vec![];
                for (dir, qs_client, qs_server, caps) in [(0u64, &qa, &qb, &cfg.caps), (100u64, &qb_conn, &qa_acc, &cfg.rev_caps)] {
                    for (c, (la, lb)) in caps.iter().enumerate() {
                        let capid = dir + c as u64;
                        let slot = if dir == 0 { c } else { cfg.caps.len() + c };
                        let lim = (*la).min(*lb) as i64;
                        for k in 0..(*lb + 1) {
                            let q = qs_server[&capid].clone();
                            let r = rng_for(seed, capid, 141, k as u64);
                            s.spawn_bg(server_loop(ctx, sh, q, capid as u8, slot, lim, (*la, *lb), r));
                        }
                        if lim == 0 {
                            let q = qs_client[&capid].clone();
                            let (la, lb) = (*la, *lb);
                            s.spawn_bg(async move {
                                if q.open(ctx).await.is_ok() {
                                    sh.fail("stream-opened-with-zero-limit", format!("capability {capid} has limits {la}/{lb} but a stream opened"));
                                }
                                Ok(())
                            });
                            continue;
                        }
                        for k in 0..cfg.clients_per_cap {
                            let q = qs_client[&capid].clone();
                            let r = rng_for(seed, capid, 142, k as u64);
                            handles.push(s.spawn(client_loop(ctx, sh, q, capid as u8, slot, lim, (*la, *lb), cfg.streams_per_client, r)));
                        }
                    }
                }
                for h in handles {
                    let _ = h.join(ctx).await;
                }
                Ok(())
            })
            .await;
            let _ = r;
        };
        crate::transport::leak_on_timeout(3600, fut).await.is_some()
    });
    if !finished {
        // The frame-count limit is shared by all streams of a connection and a pipelined OPEN / CLOSE of a stream whose previous
        // transient stream is still in use parks in the multiplexer: with fewer frame slots than twice the number of reusable
        // streams (plus one for data) two well-behaved sides can block each other (head-of-line blocking; C14 promises no
        // liveness). Such a deadlock is counted, not judged; with enough slots a deadlock means data that is never delivered.
        let streams: u64 = cfg.caps.iter().chain(cfg.rev_caps.iter()).map(|(a, b)| (*a).min(*b) as u64).sum();
        let need = 2 * streams + 2;
        if cfg.mux_a.read_frame_count < need || cfg.mux_b.read_frame_count < need {
            std::mem::forget(rt);
            rep.count("pair_cases_blocked_by_tiny_frame_count_limits");
            return;
        }
        std::mem::forget(rt);
        let tail: Vec<String> = { let l = sh.log.lock().unwrap(); l.iter().rev().take(25).rev().map(|e| format!("{e:?}")).collect() };
        let open: Vec<(i64, i64)> = (0..ncaps).map(|c| (sh.open_client[c].load(Ordering::SeqCst), sh.open_server[c].load(Ordering::SeqCst))).collect();
        rep.violation("mux-deadlock||pair".to_string(), format!("two cooperating muxes stopped making progress (virtual-time deadlock); caps {:?} reverse caps {:?} mux_a {:?} mux_b {:?} scripts {:?} / {:?}; clients/cap {} streams/client {}; open (client,server) per capability {:?}; last events {:?}", cfg.caps, cfg.rev_caps, cfg.mux_a, cfg.mux_b, cfg.script_a, cfg.script_b, cfg.clients_per_cap, cfg.streams_per_client, open, tail), replay.clone());
        rep.finish_and_exit();
    }
    drop(rt);
    rep.count("pair_cases_completed");
    // offline checks over the log
    let log = sh.log.lock().unwrap().clone();
    let pos = |p: &dyn Fn(&Ev) -> bool| log.iter().position(|e| p(e));
    let mut streams = 0u64;
    for e in &log {
        if let Ev::ClientClosedWrite { serial, bytes } = e {
            streams += 1;
            let s = *serial;
            let eos = log.iter().find_map(|x| if let Ev::ServerEos { serial, bytes, ok } = x { if *serial == s { Some((*bytes, *ok)) } else { None } } else { None });
            let dropped = log.iter().any(|x| matches!(x, Ev::ServerDroppedEarly { serial } if *serial == s));
            match eos {
                Some((b, _)) => {
                    if b != *bytes {
                        rep.violation("data-lost-or-duplicated||pair".to_string(), format!("stream {s}: client wrote {bytes} bytes and closed, server received {b} before end of stream"), replay.clone());
                    }
                    let pc = pos(&|x| matches!(x, Ev::ClientClosedWrite { serial, .. } if *serial == s));
                    let pe = pos(&|x| matches!(x, Ev::ServerEos { serial, .. } if *serial == s));
                    if pe < pc {
                        rep.violation("eos-before-counterpart-closed||pair".to_string(), format!("stream {s}: server saw end of stream before the client closed"), replay.clone());
                    }
                }
                None if !dropped => {
                    rep.violation("stream-never-reached-counterpart||pair".to_string(), format!("stream {s}: client wrote {bytes} bytes, no server ever completed it"), replay.clone());
                }
                None => {}
            }
            // response
            let resp = log.iter().find_map(|x| if let Ev::ServerResponded { serial, bytes } = x { if *serial == s { Some(*bytes) } else { None } } else { None });
            let got = log.iter().find_map(|x| if let Ev::ClientGotResponse { serial, bytes, eos, .. } = x { if *serial == s { Some((*bytes, *eos)) } else { None } } else { None });
            if let (Some(r), Some((g, true))) = (resp, got) {
                if r != g {
                    rep.violation("data-lost-or-duplicated||pair-response".to_string(), format!("stream {s}: server responded {r} bytes, client received {g}"), replay.clone());
                }
            }
        }
    }
    for (sig, d) in sh.violations.lock().unwrap().iter() {
        rep.violation(format!("{sig}||pair"), d.clone(), replay.clone());
    }
    rep.add("transient_streams_completed", streams);
    let all_caps: Vec<(u32, u32)> = cfg.caps.iter().chain(cfg.rev_caps.iter()).copied().collect();
    if !cfg.rev_caps.is_empty() { rep.count("connections_with_streams_in_both_directions"); }
    for c in 0..ncaps {
        rep.max("max_concurrently_open_streams", sh.max_open[c].load(Ordering::SeqCst) as u64);
        if all_caps[c].0.min(all_caps[c].1) > 0 && sh.max_open[c].load(Ordering::SeqCst) as u32 == all_caps[c].0.min(all_caps[c].1) {
            rep.count("capabilities_that_reached_their_stream_limit");
        }
        if all_caps[c].0 != all_caps[c].1 { rep.count("capabilities_with_mismatched_limits"); }
        if cfg.bursts[c].0.is_some() || cfg.bursts[c].1.is_some() { rep.count("capabilities_with_a_finite_open_rate"); }
        if all_caps[c].0.min(all_caps[c].1) == 0 { rep.count("capabilities_with_zero_limit"); }
    }
    if rep.samples.len() < rep.max_samples {
        rep.sample(json!({"limits(client,server)": cfg.caps, "mux_a": format!("{:?}", cfg.mux_a), "mux_b": format!("{:?}", cfg.mux_b), "streams_completed": streams, "events": log.len()}));
    }
}

/// Raw peer that ignores flow control: after a valid handshake and OPEN it floods DATA on one stream while
/// the application on the real side never reads. The real mux must stop pulling bytes from the transport.
fn run_flood(rep: &mut Report, seed: u64, rng: &mut StdRng, replay: vcommon::Value) {
    let rt = tokio::runtime::Builder::new_current_thread().enable_time().start_paused(true).build().unwrap();
    let frame = [16u64, 100, 1000, 16384][rng.gen_range(0..4)];
    let cfg = MuxConfig { read_frame_size: frame, read_buffer_size: frame * rng.gen_range(1..8), read_frame_count: rng.gen_range(1..30), write_frame_size: 1000 };
    let flood_bytes: usize = 3_000_000;
    let script = Script { read_cap: [0usize, 100, 70_000][rng.gen_range(0..3)], random_chunks: rng.gen_bool(0.5), ..Default::default() };
    let (ta, mut tb, stats) = duplex(seed, script, Script::default(), Tamper::None, false);
    let variant = rng.gen_range(0..6);
    let ctl_pick: u64 = rng.gen();
    let res = rt.block_on(async {
        let root = ctx::root();
        let fut = async {
            let q = StreamQueue::new(&root, 1, limiter::Rate::INF);
            // variant 5: the real side is the CONNECT end of the capability (an idle RPC client); otherwise the ACCEPT end
            let (mut accept, mut connect) = (BTreeMap::new(), BTreeMap::new());
            if variant == 5 { connect.insert(7u64, q.clone()); } else { accept.insert(7u64, q.clone()); }
            let r: Result<u64, ()> = scope::run!(&root, |ctx, s| async move {
                s.spawn_bg(async move {
                    let _ = verif::run_mux(ctx, cfg, accept, connect, ta).await;
                    Ok(())
                });
                // application: accepts the stream and never reads from it (variant 5: never asks for a stream at all)
                s.spawn_bg(async move {
                    if variant == 5 {
                        ctx.canceled().await;
                        return Ok(());
                    }
                    let st = q.open(ctx).await;
                    ctx.canceled().await;
                    drop(st);
                    Ok(())
                });
                // raw peer
                let hs = if variant == 5 { verif::encode_mux_handshake(&[(7, 1)], &[]) } else { verif::encode_mux_handshake(&[], &[(7, 1)]) };
                tb.write_all(&(hs.len() as u32).to_le_bytes()).await.unwrap();
                tb.write_all(&hs).await.unwrap();
                let mut l = [0u8; 4];
                tb.read_exact(&mut l).await.unwrap();
                let mut peer_hs = vec![0u8; u32::from_le_bytes(l) as usize];
                tb.read_exact(&mut peer_hs).await.unwrap();
                let handshake_bytes = (4 + hs.len()) as u64;
                // header = frame kind | stream kind of the sender | id; we are the CONNECT side of stream 0 (variant 5: the ACCEPT side)
                let side: u16 = if variant == 5 { 0 } else { 0b0010_0000_0000_0000 };
                let open: u16 = side;
                let data: u16 = 0b0100_0000_0000_0000 | side;
                let close: u16 = 0b1000_0000_0000_0000 | side;
                if variant != 2 {
                    tb.write_all(&open.to_le_bytes()).await.unwrap();
                }
                // flood: never wait for anything, never read
                let mut sent = 0usize;
                if variant <= 2 {
                    let chunk = vec![0xabu8; 60_000];
                    while sent < flood_bytes {
                        tb.write_all(&data.to_le_bytes()).await.unwrap();
                        tb.write_all(&(chunk.len() as u16).to_le_bytes()).await.unwrap();
                        tb.write_all(&chunk).await.unwrap();
                        sent += chunk.len();
                        if variant == 1 && sent % 600_000 == 0 {
                            tokio::task::yield_now().await;
                        }
                    }
                } else {
                    // control-frame flood: OPEN / CLOSE frames carry no payload but each occupies a slot of the frame-count limit;
                    // variant 4 mixes in small DATA frames, variant 5 sends OPEN only (a CLOSE would be drained by the idle reader)
                    let small = [0x5au8; 16];
                    let mut x = ctl_pick | 1;
                    let mut buf = Vec::with_capacity(70_000);
                    while sent < flood_bytes / 4 {
                        buf.clear();
                        while buf.len() < 60_000 {
                            x ^= x << 13; x ^= x >> 7; x ^= x << 17;
                            match (variant, x % 4) {
                                (5, _) | (_, 0) | (_, 1) => buf.extend_from_slice(&open.to_le_bytes()),
                                (4, 3) => {
                                    buf.extend_from_slice(&data.to_le_bytes());
                                    buf.extend_from_slice(&(small.len() as u16).to_le_bytes());
                                    buf.extend_from_slice(&small);
                                }
                                _ => buf.extend_from_slice(&close.to_le_bytes()),
                            }
                        }
                        tb.write_all(&buf).await.unwrap();
                        sent += buf.len();
                        if x % 8 == 0 {
                            tokio::task::yield_now().await;
                        }
                    }
                }
                // let the mux pull whatever it is willing to pull
                for _ in 0..2000 {
                    tokio::task::yield_now().await;
                }
                Ok(handshake_bytes)
            })
            .await;
            r.unwrap_or(0)
        };
        crate::transport::leak_on_timeout(3600, fut).await
    });
    let (written, pulled) = stats.b2a();
    let hs = res.unwrap_or(0);
    drop(rt);
    rep.evaluations += 1;
    rep.count("flood_cases");
    // bytes held = pulled - handshake. Bound: the payload the limits allow (the multiplexer takes the size and count permits of a chunk
    // BEFORE it pulls the chunk from the transport, so no chunk is ever "in transit" outside the limits) + per-frame headers
    let held = pulled.saturating_sub(hs);
    let frames_possible = cfg.read_frame_count + 2;
    let bound = cfg.read_buffer_size.min(cfg.read_frame_count * cfg.read_frame_size) + frames_possible * 4 + 64;
    rep.add("flood_bytes_offered", written);
    if variant != 2 {
        rep.max("max_unconsumed_bytes_held", held);
        rep.max("bound_for_max_unconsumed", bound);
        rep.count(if variant >= 3 { "flood_of_control_frames_cases" } else { "flood_with_open_cases" });
        if variant == 5 { rep.count("flood_towards_idle_connect_side_cases"); }
    }
    if variant == 2 {
        // DATA without OPEN: data for a stream that was never opened is either dropped or held, never beyond the bound per buffering rules;
        // the mux may legitimately consume and discard it, so only count it
        rep.count("flood_without_open");
        return;
    }
    if held > bound {
        rep.violation("unconsumed-data-exceeds-limits||flood".to_string(), format!("the multiplexer pulled {held} bytes from a flooding peer while the application read nothing; read_buffer_size {} read_frame_size {} read_frame_count {} (bound {bound})", cfg.read_buffer_size, cfg.read_frame_size, cfg.read_frame_count), replay);
    }
}

pub fn run(args: &Args, rep: &mut Report) {
    rep.rule = "one evaluation = one connection: (pair) two real muxes over the scripted transport with 2-4 capabilities, random limit pairs (incl. 0 and mismatched), \
                concurrent clients/servers exchanging self-identifying payloads of 8 B - 320 kB with random partial reads, flushes, early drops; (flood) a raw peer that \
                floods DATA and never reads while the application does not consume; distinct = distinct (configuration, event log length)"
        .into();
    let n: u64 = args.extra_u64("cases").unwrap_or(args.pick(25, 600));
    let only: Option<u64> = args.replay.as_ref().map(|p| {
        let v: vcommon::Value = vcommon::serde_json::from_slice(&std::fs::read(p).unwrap()).unwrap();
        v["replay"]["case"].as_u64().unwrap()
    });
    let flood_only = args.extra.get("mode").map(|m| m == "mux-flood").unwrap_or(false);
    if flood_only {
        rep.rule = "one evaluation = one connection on which a raw peer completes the mux handshake and then floods DATA, OPEN and CLOSE frames (towards the accept and \
                    the idle connect side) without ever reading, while the application consumes nothing; the bytes the multiplexer pulled from the transport are \
                    compared with its configured buffer / frame-count limits; distinct = distinct (case, shard)".into();
    }
    for case in 0..n {
        if let Some(o) = only { if o != case { continue; } } else if !rep.within_budget() { rep.count("stopped_by_budget"); break; }
        let mut rng = rng_for(args.seed, args.shard, 14, case);
        if flood_only {
            for k in 0..4u64 {
                run_flood(rep, args.seed ^ (case << 8) ^ k, &mut rng, json!({"case": case, "kind": "flood"}));
            }
            rep.distinct(vcommon::hash_of(&(case, args.shard, "flood")));
            continue;
        }
        let cfg = gen_cfg(&mut rng);
        rep.evaluations += 1;
        rep.count("pair_cases");
        let before = rep.get("transient_streams_completed");
        run_pair(rep, args.seed ^ (case << 8), &cfg, json!({"case": case, "kind": "pair"}));
        rep.distinct(vcommon::hash_of(&(case, args.shard, rep.get("transient_streams_completed") - before)));
        {
            run_flood(rep, args.seed ^ (case << 8) ^ 1, &mut rng, json!({"case": case, "kind": "flood"}));
            rep.distinct(vcommon::hash_of(&(case, args.shard, "flood")));
        }
    }
}
