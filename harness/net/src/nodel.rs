//! C15 (node level) - the RPC rate and in-flight limits as a REAL node applies them (`testonly::Instance`: production `Network`
//! runner, gossip `run_stream`, consensus `run_inbound_stream`, the per-connection `rpc::Service` glue with the configured rates).
//!
//! The node runs on a MANUAL clock, its peers are raw clients written against the verif facade with an infinite client-side rate:
//! one honestly authenticated gossip peer floods `get_block`, `push_block_store_state` and `push_validator_addrs` calls, one
//! committee member floods consensus messages over the validator network. Every RPC kind gets its own (burst, refresh) pair, so a
//! rate applied to the wrong kind shows as well. Because time only moves when the harness moves it, the bound of the statement is
//! decided exactly and no scheduling delay can falsify it: after a total clock advance of A the node may have served at most
//! burst + A/refresh + 1 requests of a kind on that connection. Served gossip requests are counted by their responses (a response
//! proves the request was served, so the count is a lower bound of what the node started); consensus requests are counted where
//! the node hands them to the consensus component (the harness owns that channel and the acknowledgements, so the number of
//! requests being served at one instant is observed directly and must stay <= INFLIGHT while the acknowledgements are withheld).
use std::sync::{
    atomic::{AtomicU64, Ordering},
    Arc,
};

use rand::{rngs::StdRng, seq::SliceRandom, Rng};
use vcommon::{json, rng_for, Args, Report};
use zksync_concurrency::{ctx, limiter, scope, time};
use zksync_consensus_engine::{testonly::TestEngine, BlockStoreState, Last};
use zksync_consensus_network::{testonly, verif};
use zksync_consensus_roles::validator;

struct Quiet;

#[async_trait::async_trait]
impl verif::GossipProbe for Quiet {
    async fn get_block(&self, _ctx: &ctx::Ctx, _n: validator::BlockNumber) -> anyhow::Result<Option<validator::Block>> {
        Ok(None)
    }
    async fn push_block_store_state(&self, _ctx: &ctx::Ctx, _s: BlockStoreState) -> anyhow::Result<()> {
        Ok(())
    }
    async fn push_validator_addrs(&self, _ctx: &ctx::Ctx, _a: Vec<Arc<validator::Signed<validator::NetAddress>>>) -> anyhow::Result<()> {
        Ok(())
    }
}

const KINDS: [&str; 5] = ["get_block", "push_block_store_state", "push_validator_addrs", "consensus", "ping"];

#[derive(Default)]
struct Counters {
    served: [AtomicU64; 5],
    /// consensus requests handed to the consensus component whose acknowledgement the harness still holds
    pending: AtomicU64,
    max_pending: AtomicU64,
}

async fn settle(c: &Counters, max_ms: u64) {
    let snap = |c: &Counters| (c.served.iter().map(|a| a.load(Ordering::SeqCst)).collect::<Vec<_>>(), c.pending.load(Ordering::SeqCst));
    let mut last = snap(c);
    let mut same = 0;
    let mut waited = 0;
    while same < settle_polls() && waited < max_ms * 3 {
        tokio::time::sleep(std::time::Duration::from_millis(40)).await;
        waited += 40;
        let now = snap(c);
        if now == last {
            same += 1;
        } else {
            same = 0;
            last = now;
        }
    }
}

fn run_case(rep: &mut Report, args: &Args, case: u64, rt: &tokio::runtime::Runtime) {
    let mut rng: StdRng = rng_for(args.seed, args.shard, 150, case);
    let mut setup = validator::testonly::Setup::new(&mut rng, 3);
    setup.push_blocks_v2(&mut rng, 4);
    let chain = setup.blocks.clone();
    let first = chain[0].number();
    let mut cfg = testonly::new_configs(&mut rng, &setup, 0)[0].clone();
    // distinct bursts and refresh periods per RPC kind
    let mut bursts = [1usize, 2, 3, 4, 6];
    bursts.shuffle(&mut rng);
    let mut refresh_ms = [100i64, 250, 400, 700, 1000];
    refresh_ms.shuffle(&mut rng);
    let rate = |i: usize| limiter::Rate { burst: bursts[i], refresh: time::Duration::milliseconds(refresh_ms[i]) };
    cfg.rpc.get_block_rate = rate(0);
    cfg.rpc.push_block_store_state_rate = rate(1);
    cfg.rpc.push_validator_addrs_rate = rate(2);
    cfg.rpc.consensus_rate = rate(3);
    cfg.rpc.push_tx_rate = rate(4);
    cfg.rpc.get_block_timeout = None;
    cfg.ping_timeout = None;
    let ident = testonly::new_fullnode(&mut rng, &cfg);
    let genesis = setup.genesis_hash();
    let node_key = cfg.gossip.key.public();
    let node_vkey = setup.validator_keys[0].public();
    let peer_vkey = setup.validator_keys[1].clone();
    let addr = *cfg.server_addr;
    let advances: Vec<i64> = (0..rng.gen_range(2..5usize)).map(|_| [1i64, 99, 100, 250, 399, 401, 1000, 1700][rng.gen_range(0..8)]).collect();
    let hold_acks = rng.gen_bool(0.7);
    let flood: usize = rng.gen_range(25..60);
    let msgs: Vec<validator::Signed<validator::ConsensusMsg>> = (0..flood).map(|_| rng.gen()).collect();
    let counters = Arc::new(Counters::default());
    let notes = std::sync::Mutex::new(Vec::<String>::new());
    let viol = std::sync::Mutex::new(Vec::<(String, String)>::new());
    let connected = std::sync::atomic::AtomicBool::new(false);
    let fut = async {
        let clock = ctx::ManualClock::new();
        let root = ctx::test_root(&clock);
        let (setup, cfg, chain, ident, counters, notes, viol, msgs, advances, clock, peer_vkey, node_vkey, node_key, connected) =
            (&setup, &cfg, &chain, &ident, &counters, &notes, &viol, &msgs, &advances, &clock, &peer_vkey, &node_vkey, &node_key, &connected);
        let r: anyhow::Result<()> = scope::run!(&root, |ctx, s| async move {
            let engine = TestEngine::new_with_first_block(ctx, setup, first).await;
            s.spawn_bg(engine.runner.run(ctx));
            let (mut node, runner) = testonly::Instance::new(cfg.clone(), engine.manager.clone());
            s.spawn_bg(async move {
                let _ = runner.run(ctx).await;
                Ok(())
            });
            // the consensus component: the harness. It counts what the node hands over and keeps the acknowledgements.
            let (ack_release, mut ack_released) = tokio::sync::watch::channel(false);
            {
                let counters = counters.clone();
                s.spawn_bg(async move {
                    let mut held = vec![];
                    loop {
                        tokio::select! {
                            req = node.consensus_receiver.recv(ctx) => {
                                let Ok(req) = req else { break };
                                counters.served[3].fetch_add(1, Ordering::SeqCst);
                                let p = counters.pending.fetch_add(1, Ordering::SeqCst) + 1;
                                counters.max_pending.fetch_max(p, Ordering::SeqCst);
                                if *ack_released.borrow() {
                                    counters.pending.fetch_sub(1, Ordering::SeqCst);
                                    let _ = req.ack.send(());
                                } else {
                                    held.push(req.ack);
                                }
                            }
                            _ = ack_released.changed() => {
                                for a in held.drain(..) {
                                    counters.pending.fetch_sub(1, Ordering::SeqCst);
                                    let _ = a.send(());
                                }
                            }
                        }
                    }
                    Ok(())
                });
            }
            let mut up = false;
            for _ in 0..200 {
                if verif::tcp_connect(ctx, addr).await.is_ok() {
                    up = true;
                    break;
                }
                tokio::time::sleep(std::time::Duration::from_millis(20)).await;
            }
            if !up {
                return Ok(());
            }
            // ---- gossip peer
            let Ok(mut gstream) = verif::preface_connect(ctx, addr, verif::Endpoint::GossipNet).await else { return Ok(()) };
            if verif::gossip_handshake_outbound(ctx, ident, genesis, &mut gstream, node_key).await.is_err() {
                return Ok(());
            }
            // ---- validator peer
            let Ok(mut vstream) = verif::preface_connect(ctx, addr, verif::Endpoint::ConsensusNet).await else { return Ok(()) };
            if verif::consensus_handshake_outbound(ctx, peer_vkey, genesis, &mut vstream, node_vkey).await.is_err() {
                return Ok(());
            }
            connected.store(true, Ordering::SeqCst);
            let clients = verif::GossipClients::new(ctx);
            let ccli = verif::ConsensusClient::new(ctx, limiter::Rate::INF);
            let pcli = verif::PingClient::new(ctx, limiter::Rate::INF);
            let (clients, ccli, pcli) = (&clients, &ccli, &pcli);
            let state = BlockStoreState { first, last: None }; // an empty range: the node has nothing to fetch from this peer (a failed fetch would make it hang up)
            let _ = (chain, |l: &validator::Block| Last::from(l));
            let state = &state;
            let _: Result<(), ()> = scope::run!(ctx, |ctx, s| async move {
                s.spawn_bg(async move {
                    let _ = verif::run_gossip_peer(ctx, gstream, &Quiet, clients).await;
                    Ok(())
                });
                s.spawn_bg(async move {
                    let _ = verif::run_rpc_client(ctx, vstream, Some(ccli), Some(pcli)).await;
                    Ok(())
                });
                // floods: every call is its own task; the client side has no rate of its own
                for i in 0..flood {
                    let (c0, c1, c2) = (counters.clone(), counters.clone(), counters.clone());
                    let n = validator::BlockNumber(first.0 + (i as u64 % 6));
                    s.spawn_bg(async move {
                        if clients.get_block(ctx, n, 10_000_000).await.is_ok() {
                            c0.served[0].fetch_add(1, Ordering::SeqCst);
                        }
                        Ok(())
                    });
                    s.spawn_bg(async move {
                        if clients.push_block_store_state(ctx, state.clone()).await.is_ok() {
                            c1.served[1].fetch_add(1, Ordering::SeqCst);
                        }
                        Ok(())
                    });
                    s.spawn_bg(async move {
                        if clients.push_validator_addrs(ctx, vec![]).await.is_ok() {
                            c2.served[2].fetch_add(1, Ordering::SeqCst);
                        }
                        Ok(())
                    });
                    let m = msgs[i].clone();
                    s.spawn_bg(async move {
                        let _ = ccli.call(ctx, m).await;
                        Ok(())
                    });
                    // the ping server of the validator connection has a rate of its own that no configuration changes
                    let c4 = counters.clone();
                    s.spawn_bg(async move {
                        if pcli.call(ctx, [i as u8; 32]).await.is_ok() {
                            c4.served[4].fetch_add(1, Ordering::SeqCst);
                        }
                        Ok(())
                    });
                }
                let check = |advanced_ms: i64, phase: &str| {
                    if std::env::var("VERIF_DEBUG").is_ok() {
                        eprintln!("case {case} {phase} advanced {advanced_ms}: served {:?} bursts {:?} refresh {:?}", counters.served.iter().map(|a| a.load(Ordering::SeqCst)).collect::<Vec<_>>(), bursts, refresh_ms);
                    }
                    for k in 0..5 {
                        let served = counters.served[k].load(Ordering::SeqCst);
                        let (burst_k, refresh_k) = if k == 4 { (verif::PING_RATE.burst, verif::PING_RATE.refresh.whole_milliseconds() as i64) } else { (bursts[k], refresh_ms[k]) };
                        let bound = burst_k as u64 + (advanced_ms / refresh_k.max(1)) as u64 + 1;
                        if served > bound {
                            viol.lock().unwrap().push((
                                format!("node-rpc-rate-exceeded|{}|node", KINDS[k]),
                                format!("{phase}: the node served {served} {} requests on one connection after a total clock advance of {advanced_ms} ms; configured burst {} refresh {} ms allows {bound}", KINDS[k], burst_k, refresh_k),
                            ));
                        }
                        if served >= burst_k as u64 {
                            notes.lock().unwrap().push(format!("limit_reached_{}", KINDS[k]));
                        }
                    }
                    let mp = counters.max_pending.load(Ordering::SeqCst);
                    if mp > verif::CONSENSUS_INFLIGHT as u64 {
                        viol.lock().unwrap().push((
                            "node-consensus-inflight-exceeded||node".to_string(),
                            format!("{phase}: {mp} consensus requests of one connection were being served at the same time; INFLIGHT is {}", verif::CONSENSUS_INFLIGHT),
                        ));
                    }
                };
                // phase 0: the clock never moved
                settle(counters, 4000).await;
                check(0, "clock frozen");
                if counters.max_pending.load(Ordering::SeqCst) >= verif::CONSENSUS_INFLIGHT as u64 {
                    notes.lock().unwrap().push("consensus_inflight_limit_reached".into());
                }
                if !hold_acks {
                    let _ = ack_release.send(true);
                    settle(counters, 2000).await;
                    check(0, "clock frozen, acknowledgements released");
                }
                let mut total = 0i64;
                for (i, a) in advances.iter().enumerate() {
                    clock.advance(time::Duration::milliseconds(*a));
                    total += *a;
                    if i == 0 {
                        let _ = ack_release.send(true);
                    }
                    settle(counters, 3000).await;
                    check(total, "after clock advances");
                }
                notes.lock().unwrap().push("phases_completed".into());
                Ok(())
            })
            .await;
            Ok(())
        })
        .await;
        let _ = r;
    };
    let res = vcommon::catch(|| rt.block_on(crate::transport::leak_on_timeout(120, fut)));
    rep.evaluations += 1;
    rep.count("node_limit_cases");
    let replay = json!({"case": case, "kind": "node-limits", "bursts": bursts.to_vec(), "refresh_ms": refresh_ms.to_vec(), "advances_ms": advances, "kinds": KINDS.to_vec()});
    match res {
        Err(p) => rep.violation(format!("panic|{}|node-limits", p.location), format!("panic in a node under an RPC flood: {}", p.message), replay),
        Ok(None) => rep.inconclusive(format!("node-limits case {case} hit the 120 s wall-clock watchdog")),
        Ok(Some(())) => {
            if !connected.load(Ordering::SeqCst) {
                rep.count("node_limit_cases_lost_to_the_environment");
            }
            let mut v = viol.lock().unwrap().clone();
            v.dedup_by(|a, b| a.0 == b.0);
            for (sig, detail) in v {
                rep.violation(sig, detail, replay.clone());
            }
            let notes = notes.lock().unwrap();
            let mut seen = std::collections::BTreeSet::new();
            for n in notes.iter() {
                if seen.insert(n.clone()) {
                    rep.count(&format!("node_{n}"));
                }
            }
            for k in 0..5 {
                rep.add(&format!("node_requests_served_{}", KINDS[k]), counters.served[k].load(Ordering::SeqCst));
            }
            rep.max("node_max_consensus_requests_in_flight", counters.max_pending.load(Ordering::SeqCst));
            if case < 3 {
                rep.sample(json!({"case": case, "bursts": bursts.to_vec(), "refresh_ms": refresh_ms.to_vec(), "advances_ms": advances,
                    "served": (0..5).map(|k| counters.served[k].load(Ordering::SeqCst)).collect::<Vec<_>>(), "kinds": KINDS.to_vec(), "flood_per_kind": flood}));
            }
        }
    }
    rep.distinct(vcommon::hash_of(&(args.shard, case, "node-limits")));
}

pub fn run(args: &Args, rep: &mut Report) {
    rep.rule = "one evaluation = one real node on a manual clock flooded by an authenticated raw gossip peer (get_block, push_block_store_state, push_validator_addrs) and a \
                committee member on the validator network (consensus messages), 25-60 concurrent calls per kind with no client-side rate; after every clock advance the number of \
                requests served per kind must be <= burst + advanced/refresh + 1 and the consensus requests in flight <= INFLIGHT; distinct = distinct (case, shard)"
        .into();
    let n: u64 = args.extra_u64("cases").unwrap_or(args.pick(5, 120));
    let rt = tokio::runtime::Builder::new_multi_thread().worker_threads(2).enable_all().build().unwrap();
    let only: Option<u64> = args.replay.as_ref().and_then(|p| {
        let v: vcommon::Value = vcommon::serde_json::from_slice(&std::fs::read(p).ok()?).ok()?;
        v["replay"]["case"].as_u64()
    });
    for case in 0..n {
        if let Some(o) = only {
            if o != case {
                continue;
            }
        } else if !rep.within_budget() {
            rep.count("stopped_by_budget");
            break;
        }
        run_case(rep, args, case, &rt);
    }
    std::mem::forget(rt);
}

fn settle_polls() -> u32 {
    std::env::var("VERIF_SETTLE").ok().and_then(|s| s.parse().ok()).unwrap_or(8)
}
