//! C18 - validator address book: authentic, member, strictly newer; all-or-nothing batches; order independence.
use std::{collections::BTreeMap, sync::Arc};

use rand::{rngs::StdRng, seq::SliceRandom, Rng};
use vcommon::{json, rng_for, Args, Report};
use zksync_concurrency::time;
use zksync_consensus_network::verif::ValidatorAddrsWatch;
use zksync_consensus_roles::validator;

type Ann = Arc<validator::Signed<validator::NetAddress>>;

#[derive(Clone)]
struct Item {
    ann: Ann,
    class: &'static str,
    genuine: bool,
}

fn addr(rng: &mut StdRng) -> std::net::SocketAddr {
    // validators re-announce periodically and move back and forth between few addresses: most announcements repeat an address
    if rng.gen_bool(0.6) {
        return std::net::SocketAddr::new(std::net::IpAddr::from([10, 0, 0, rng.gen_range(1..4u8)]), 3054);
    }
    std::net::SocketAddr::new(std::net::IpAddr::from(rng.gen::<[u8; 4]>()), rng.gen())
}

fn edge_version(rng: &mut StdRng) -> u64 {
    [0, 1, 2, 3, u64::MAX - 1, u64::MAX][rng.gen_range(0..6)]
}

fn ts(rng: &mut StdRng) -> time::Utc {
    // whole seconds and sub-second offsets (two announcements of one validator may differ by less than a second)
    time::UNIX_EPOCH + time::Duration::seconds([0i64, 1, 2, 1_000_000, -5][rng.gen_range(0..5)]) + time::Duration::milliseconds([0i64, 0, 100, 900, 999][rng.gen_range(0..5)])
}

fn newer(a: &validator::NetAddress, b: &validator::NetAddress) -> bool {
    (a.version, a.timestamp) > (b.version, b.timestamp)
}

/// Reference address book, written from the statement of C18.
#[derive(Clone, Default)]
struct RefBook(BTreeMap<validator::PublicKey, Ann>);

impl RefBook {
    /// returns Ok(changed) / Err for a rejected batch (book unchanged)
    fn update(&mut self, schedule: &validator::Schedule, batch: &[Item]) -> Result<(), ()> {
        let mut next = self.0.clone();
        let mut seen = std::collections::BTreeSet::new();
        for it in batch {
            if !seen.insert(it.ann.key.clone()) {
                return Err(());
            }
            if !schedule.contains(&it.ann.key) {
                continue;
            }
            if let Some(cur) = next.get(&it.ann.key) {
                if !newer(&it.ann.msg, &cur.msg) {
                    continue;
                }
            }
            if !it.genuine {
                return Err(());
            }
            next.insert(it.ann.key.clone(), it.ann.clone());
        }
        self.0 = next;
        Ok(())
    }
}

fn gen_item(rng: &mut StdRng, members: &[validator::SecretKey], outsiders: &[validator::SecretKey]) -> Item {
    let k = &members[rng.gen_range(0..members.len())];
    let msg = validator::NetAddress { addr: addr(rng), version: edge_version(rng), timestamp: ts(rng) };
    match rng.gen_range(0..10) {
        0 => {
            // signed by another key
            let other = &outsiders[0];
            let mut s = k.sign_msg(msg.clone());
            s.sig = other.sign_msg(msg).sig;
            Item { ann: Arc::new(s), class: "forged-signature-by-other-key", genuine: false }
        }
        1 => {
            // altered after signing
            let mut s = k.sign_msg(msg.clone());
            s.msg.addr = addr(rng);
            let genuine = s.msg == msg;
            Item { ann: Arc::new(s), class: "altered-after-signing", genuine }
        }
        2 => {
            let o = &outsiders[rng.gen_range(0..outsiders.len())];
            Item { ann: Arc::new(o.sign_msg(msg)), class: "non-member", genuine: true }
        }
        3 => {
            // forged version bump: a valid announcement whose version was raised after signing
            let mut s = k.sign_msg(msg.clone());
            s.msg.version = s.msg.version.saturating_add(1);
            // (at u64::MAX the version cannot be raised: the entry stays genuine)
            let genuine = s.msg == msg;
            Item { ann: Arc::new(s), class: "version-raised-after-signing", genuine }
        }
        _ => Item { ann: Arc::new(k.sign_msg(msg)), class: "valid", genuine: true },
    }
}

pub fn run(args: &Args, rep: &mut Report) {
    rep.rule = "one evaluation = one announcement batch applied to the real ValidatorAddrsWatch and to the reference book (written from the statement): result, resulting \
                book, authenticity/membership/strict-newness of every stored entry; plus order-independence cases where several books receive the same tie-free valid \
                announcements in different orders and batchings; distinct = distinct (committee, batch shape)"
        .into();
    let ncases: u64 = args.extra_u64("cases").unwrap_or(args.pick(25, 600));
    let rt = tokio::runtime::Builder::new_current_thread().build().unwrap();
    let mut krng = rng_for(args.seed, args.shard, 180, 0);
    let pool: Vec<validator::SecretKey> = (0..10).map(|_| krng.gen()).collect();
    for case in 0..ncases {
        if !rep.within_budget() { rep.count("stopped_by_budget"); break; }
        let mut rng = rng_for(args.seed, args.shard, 18, case);
        let n = rng.gen_range(1..=8usize);
        let members: Vec<validator::SecretKey> = pool[..n].to_vec();
        let outsiders: Vec<validator::SecretKey> = pool[8..].to_vec();
        let schedule = validator::Schedule::new(members.iter().map(|k| validator::ValidatorInfo { key: k.public(), weight: 1, leader: true }), validator::LeaderSelection::default()).unwrap();
        let book = ValidatorAddrsWatch::default();
        let mut reference = RefBook::default();
        let mut last: BTreeMap<validator::PublicKey, (u64, time::Utc)> = BTreeMap::new();
        rt.block_on(async {
            for b in 0..rng.gen_range(5..40) {
                let mut batch: Vec<Item> = (0..rng.gen_range(0..6)).map(|_| gen_item(&mut rng, &members, &outsiders)).collect();
                if rng.gen_bool(0.15) && !batch.is_empty() {
                    // duplicate key inside the batch (possibly with different content)
                    let d = batch[0].clone();
                    let pos = rng.gen_range(0..=batch.len());
                    batch.insert(pos, if rng.gen_bool(0.5) { d } else { let k = members.iter().find(|k| k.public() == batch[0].ann.key).or(outsiders.iter().find(|k| k.public() == batch[0].ann.key)).unwrap(); Item { ann: Arc::new(k.sign_msg(validator::NetAddress { addr: addr(&mut rng), version: 9, timestamp: ts(&mut rng) })), class: "duplicate-key", genuine: true } });
                    rep.count("batches_with_duplicate_key");
                }
                if rng.gen_bool(0.3) {
                    batch.shuffle(&mut rng);
                }
                let data: Vec<Ann> = batch.iter().map(|i| i.ann.clone()).collect();
                let before = book.current();
                // a genuine strictly newer announcement that repeats the address the book already holds for that validator
                for it in &batch {
                    if it.genuine && before.iter().any(|(k, a)| *k == it.ann.key && a.msg.addr == it.ann.msg.addr && newer(&it.ann.msg, &a.msg)) {
                        rep.count("newer_announcements_repeating_the_stored_address");
                    }
                }
                let got = book.update(&schedule, &data).await;
                let want = reference.update(&schedule, &batch);
                rep.evaluations += 1;
                rep.count(if want.is_ok() { "batches_accepted" } else { "batches_rejected" });
                for it in &batch { rep.count(&format!("entries_{}", it.class)); }
                let replay = json!({"case": case, "batch": b});
                if got.is_ok() != want.is_ok() {
                    rep.violation(format!("batch-verdict-differs||{}", if got.is_ok() { "accepted" } else { "rejected" }), format!("batch of classes {:?}: implementation {:?}, reference {}", batch.iter().map(|i| i.class).collect::<Vec<_>>(), got, if want.is_ok() { "accepts" } else { "rejects" }), replay.clone());
                }
                let cur: BTreeMap<validator::PublicKey, Ann> = book.current().into_iter().collect();
                if want.is_err() {
                    let b4: BTreeMap<validator::PublicKey, Ann> = before.into_iter().collect();
                    if b4 != cur {
                        rep.violation("rejected-batch-changed-book||".to_string(), format!("classes {:?}", batch.iter().map(|i| i.class).collect::<Vec<_>>()), replay.clone());
                    }
                }
                if cur != reference.0 {
                    rep.violation("book-differs-from-reference||".to_string(), format!("after batch of classes {:?}: {} entries vs reference {}", batch.iter().map(|i| i.class).collect::<Vec<_>>(), cur.len(), reference.0.len()), replay.clone());
                    // resynchronise so that one divergence is reported once
                    reference.0 = cur.clone();
                }
                for (k, a) in &cur {
                    rep.count("stored_entries_checked");
                    if a.key != *k || a.verify().is_err() {
                        rep.violation("forged-entry-stored||".to_string(), format!("entry for a validator does not verify under its key (version {})", a.msg.version), replay.clone());
                    }
                    if !schedule.contains(k) {
                        rep.violation("non-member-stored||".to_string(), "an announcement of a non-member is in the book".to_string(), replay.clone());
                    }
                    let now = (a.msg.version, a.msg.timestamp);
                    if let Some(prev) = last.get(k) {
                        if now < *prev {
                            rep.violation("entry-replaced-by-older||".to_string(), format!("entry went from {prev:?} to {now:?}"), replay.clone());
                        }
                    }
                    last.insert(k.clone(), now);
                }
                rep.distinct(vcommon::hash_of(&(n, batch.iter().map(|i| (i.class, i.ann.msg.version)).collect::<Vec<_>>())));
            }
            // ---- order independence
            let mut anns: Vec<Ann> = vec![];
            for k in &members {
                let mut used = std::collections::BTreeSet::new();
                for _ in 0..rng.gen_range(1..5) {
                    let v = edge_version(&mut rng);
                    let t = ts(&mut rng);
                    if used.insert((v, t)) {
                        anns.push(Arc::new(k.sign_msg(validator::NetAddress { addr: addr(&mut rng), version: v, timestamp: t })));
                    }
                }
            }
            let mut books: Vec<Vec<(validator::PublicKey, Ann)>> = vec![];
            for _ in 0..4 {
                let b = ValidatorAddrsWatch::default();
                let mut order = anns.clone();
                order.shuffle(&mut rng);
                let mut i = 0;
                while i < order.len() {
                    // batches without duplicate keys
                    let mut batch: Vec<Ann> = vec![];
                    while i < order.len() && batch.len() < 4 && !batch.iter().any(|x| x.key == order[i].key) {
                        batch.push(order[i].clone());
                        i += 1;
                    }
                    let _ = b.update(&schedule, &batch).await;
                }
                let mut cur = b.current();
                cur.sort_by(|a, b| a.0.cmp(&b.0));
                books.push(cur);
            }
            rep.evaluations += 1;
            rep.count("order_independence_cases");
            if books.iter().any(|b| *b != books[0]) {
                rep.violation("arrival-order-dependent||".to_string(), "books that received the same valid tie-free announcements in different orders differ".to_string(), json!({"case": case}));
            }
        });
        if rep.samples.len() < rep.max_samples {
            rep.sample(json!({"case": case, "committee": n, "final_entries": reference.0.len()}));
        }
    }
}
