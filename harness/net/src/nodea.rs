//! C10 (node level) - well-formed but absurd gossip RPCs into a REAL node (`testonly::Instance` over a real `EngineManager`):
//! a raw peer authenticates honestly and then pushes block-store states at the edges of the number space (first = u64::MAX,
//! last below first is refused by `verify`, last = u64::MAX, certificates of unknown blocks), asks for blocks 0 / u64::MAX /
//! outside every range, pushes address announcements with extreme versions / timestamps / forged signatures, answers the
//! node's own `get_block` calls with nothing, and hangs up in the middle. Oracle: no panic anywhere in the process (the node
//! runs in this process; its release profile turns a panic into an abort of the whole node), and after every hostile session
//! a fresh honest connection is still served (ping answered).
use std::sync::{
    atomic::{AtomicU64, Ordering},
    Arc,
};

use rand::{rngs::StdRng, Rng};
use vcommon::{json, rng_for, Args, Report};
use zksync_concurrency::{ctx, limiter, scope, time};
use zksync_consensus_engine::{testonly::TestEngine, BlockStoreState, Last};
use zksync_consensus_network::{testonly, verif};
use zksync_consensus_roles::validator;

struct Probe {
    asked: AtomicU64,
}

#[async_trait::async_trait]
impl verif::GossipProbe for Probe {
    async fn get_block(&self, _ctx: &ctx::Ctx, _n: validator::BlockNumber) -> anyhow::Result<Option<validator::Block>> {
        self.asked.fetch_add(1, Ordering::SeqCst);
        Ok(None)
    }
    async fn push_block_store_state(&self, _ctx: &ctx::Ctx, _s: BlockStoreState) -> anyhow::Result<()> {
        Ok(())
    }
    async fn push_validator_addrs(&self, _ctx: &ctx::Ctx, _a: Vec<Arc<validator::Signed<validator::NetAddress>>>) -> anyhow::Result<()> {
        Ok(())
    }
}

fn edge(rng: &mut StdRng) -> u64 {
    [0u64, 1, 2, 99, 100, u32::MAX as u64, u64::MAX / 2, u64::MAX - 1, u64::MAX][rng.gen_range(0..9)]
}

fn run_case(rep: &mut Report, args: &Args, case: u64, rt: &tokio::runtime::Runtime) {
    let mut rng: StdRng = rng_for(args.seed, args.shard, 140, case);
    let mut setup = validator::testonly::Setup::new(&mut rng, 3);
    setup.push_blocks_v2(&mut rng, 6);
    let chain = setup.blocks.clone();
    let first = chain[0].number();
    let mut cfg = testonly::new_configs(&mut rng, &setup, 0)[0].clone();
    let fast = limiter::Rate { burst: 1000, refresh: time::Duration::milliseconds(1) };
    cfg.rpc.get_block_timeout = Some(time::Duration::milliseconds(300));
    cfg.rpc.get_block_rate = fast;
    cfg.rpc.push_validator_addrs_rate = fast;
    cfg.rpc.push_block_store_state_rate = fast;
    let ident = testonly::new_fullnode(&mut rng, &cfg);
    let honest = testonly::new_fullnode(&mut rng, &cfg);
    let genesis = setup.genesis_hash();
    let node_key = cfg.gossip.key.public();
    let addr = *cfg.server_addr;
    let members = setup.validator_keys.clone();
    let sessions = rng.gen_range(2..5usize);
    let counters = std::sync::Mutex::new(std::collections::BTreeMap::<String, u64>::new());
    let bump = |k: &str| *counters.lock().unwrap().entry(k.to_string()).or_default() += 1;
    let alive_failures = AtomicU64::new(0);
    let fut = async {
        let root = ctx::root();
        let (rng, setup, cfg, chain, ident, honest, members, bump, alive_failures, node_key) = (&mut rng, &setup, &cfg, &chain, &ident, &honest, &members, &bump, &alive_failures, &node_key);
        let r: anyhow::Result<()> = scope::run!(&root, |ctx, s| async move {
            let engine = TestEngine::new_with_first_block(ctx, setup, first).await;
            s.spawn_bg(engine.runner.run(ctx));
            let (_node, runner) = testonly::Instance::new(cfg.clone(), engine.manager.clone());
            s.spawn_bg(async move {
                let _ = runner.run(ctx).await;
                Ok(())
            });
            for _ in 0..200 {
                if verif::tcp_connect(ctx, addr).await.is_ok() {
                    break;
                }
                let _ = ctx.sleep(time::Duration::milliseconds(20)).await;
            }
            for _ in 0..sessions {
                // ---- a hostile session
                let c = ctx.with_timeout(time::Duration::seconds(5));
                let Ok(mut stream) = verif::preface_connect(&c, addr, verif::Endpoint::GossipNet).await else { continue };
                if verif::gossip_handshake_outbound(&c, ident, genesis, &mut stream, node_key).await.is_err() {
                    let _ = ctx.sleep(time::Duration::milliseconds(50)).await;
                    continue;
                }
                bump("hostile_sessions");
                let probe = Probe { asked: AtomicU64::new(0) };
                let clients = verif::GossipClients::new(ctx);
                let nreq = rng.gen_range(3..12usize);
                let (probe, clients) = (&probe, &clients);
                let rng2 = &mut *rng;
                let _: Result<(), ()> = scope::run!(ctx, |ctx, s| async move {
                    s.spawn_bg(async move {
                        let _ = verif::run_gossip_peer(ctx, stream, probe, clients).await;
                        Ok(())
                    });
                    for _ in 0..nreq {
                        let c = ctx.with_timeout(time::Duration::milliseconds(400));
                        match rng2.gen_range(0..10) {
                            0..=3 => {
                                // block store states at the edges
                                let f = edge(rng2);
                                let last = match rng2.gen_range(0..5) {
                                    0 => None,
                                    1 => Some(Last::PreGenesis(validator::BlockNumber(edge(rng2)))),
                                    2 => Some(Last::PreGenesis(validator::BlockNumber(f.saturating_add(rng2.gen_range(0..3))))),
                                    3 => chain.last().map(Last::from),
                                    _ => {
                                        // a certificate about a block nobody knows, at an extreme number / view
                                        let mut qc: validator::v2::CommitQC = rng2.gen();
                                        qc.message.proposal.number = validator::BlockNumber(edge(rng2));
                                        qc.message.view.number = validator::ViewNumber(edge(rng2));
                                        Some(Last::FinalV2(qc))
                                    }
                                };
                                bump("absurd_block_store_states");
                                let _ = clients.push_block_store_state(&c, BlockStoreState { first: validator::BlockNumber(f), last }).await;
                            }
                            4 | 5 => {
                                bump("absurd_get_block_requests");
                                let _ = clients.get_block(&c, validator::BlockNumber(edge(rng2)), 10_000_000).await;
                            }
                            6 | 7 => {
                                let k = &members[rng2.gen_range(0..members.len())];
                                let n = rng2.gen_range(0..4usize);
                                let batch: Vec<_> = (0..n)
                                    .map(|_| {
                                        let msg = validator::NetAddress {
                                            addr: std::net::SocketAddr::new(std::net::IpAddr::from(rng2.gen::<[u8; 16]>()), rng2.gen()),
                                            version: edge(rng2),
                                            timestamp: time::UNIX_EPOCH + time::Duration::seconds([0i64, -1, 1, i32::MAX as i64, -(i32::MAX as i64)][rng2.gen_range(0..5)]),
                                        };
                                        let mut s = k.sign_msg(msg);
                                        if rng2.gen_bool(0.3) {
                                            s.msg.version = edge(rng2);
                                        }
                                        Arc::new(s)
                                    })
                                    .collect();
                                bump("absurd_address_batches");
                                let _ = clients.push_validator_addrs(&c, batch).await;
                            }
                            8 => {
                                let _ = ctx.sleep(time::Duration::milliseconds(rng2.gen_range(1..30))).await;
                            }
                            _ => break, // hang up in the middle
                        }
                    }
                    Ok(())
                })
                .await;
                bump("hostile_sessions_ended");
                rep_add(bump, "get_block_calls_the_node_made_to_the_hostile_peer", probe.asked.load(Ordering::SeqCst));
                // ---- the node must still serve an honest newcomer
                let mut served = false;
                for _ in 0..20 {
                    let c = ctx.with_timeout(time::Duration::seconds(3));
                    if let Ok(mut stream) = verif::preface_connect(&c, addr, verif::Endpoint::GossipNet).await {
                        if verif::gossip_handshake_outbound(&c, honest, genesis, &mut stream, node_key).await.is_ok() {
                            let ping = verif::PingClient::new(ctx, limiter::Rate::INF);
                            let ping = &ping;
                            let ok: Result<bool, ()> = scope::run!(ctx, |ctx, s| async move {
                                s.spawn_bg(async move {
                                    let _ = verif::run_rpc_client(ctx, stream, None, Some(ping)).await;
                                    Ok(())
                                });
                                let c = ctx.with_timeout(time::Duration::seconds(3));
                                Ok(ping.call(&c, [7; 32]).await.is_ok())
                            })
                            .await;
                            if ok == Ok(true) {
                                served = true;
                                break;
                            }
                        }
                    }
                    // the previous honest connection may still be registered: wait and retry
                    let _ = ctx.sleep(time::Duration::milliseconds(100)).await;
                }
                if served {
                    bump("node_still_serving_after_hostile_session");
                } else {
                    alive_failures.fetch_add(1, Ordering::SeqCst);
                }
            }
            Ok(())
        })
        .await;
        let _ = r;
    };
    let res = vcommon::catch(|| rt.block_on(crate::transport::leak_on_timeout(150, fut)));
    rep.evaluations += 1;
    rep.count("node_absurd_cases");
    let replay = json!({"case": case, "kind": "node-absurd"});
    match res {
        Err(p) => rep.violation(format!("panic|{}|node-absurd", p.location), format!("a well-formed absurd gossip RPC made the node panic: {}", p.message), replay),
        Ok(None) => rep.inconclusive(format!("node-absurd case {case} hit the 150 s wall-clock watchdog")),
        Ok(Some(())) => {
            if alive_failures.load(Ordering::SeqCst) > 0 {
                rep.violation("node-stopped-serving||node-absurd".to_string(), "after a hostile gossip session a fresh honest connection was not served within 20 attempts".to_string(), replay);
            }
        }
    }
    for (k, v) in counters.lock().unwrap().iter() {
        rep.add(k, *v);
    }
    rep.distinct(vcommon::hash_of(&(args.shard, case, "node-absurd")));
}

fn rep_add(bump: &dyn Fn(&str), k: &str, n: u64) {
    for _ in 0..n.min(50) {
        bump(k);
    }
}

pub fn run(args: &Args, rep: &mut Report) {
    rep.rule = "one evaluation = one real node attacked by an honestly authenticated raw gossip peer in 2-4 sessions of 3-11 well-formed absurd RPCs (block-store states, get_block numbers, address \
                announcements at the edges of their domains; forged signatures; hanging up mid-way); no panic in the process and a fresh honest connection is served afterwards; \
                distinct = distinct (case, shard)"
        .into();
    let n: u64 = args.extra_u64("cases").unwrap_or(args.pick(6, 150));
    let rt = tokio::runtime::Builder::new_multi_thread().worker_threads(2).enable_all().build().unwrap();
    for case in 0..n {
        if !rep.within_budget() { rep.count("stopped_by_budget"); break; }
        run_case(rep, args, case, &rt);
    }
    std::mem::forget(rt);
}
