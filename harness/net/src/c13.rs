//! C13 - the encrypted transport delivers exactly the bytes written, or fails.
//! Real noise stream (client/server) over the scripted transport. Oracle: without tampering the
//! reader's bytes equal the writer's bytes and EOF comes only after shutdown; with one tampering of
//! the ciphertext stream the reader's bytes are a prefix of the writer's followed by an error or EOF.
use rand::{rngs::StdRng, Rng};
use tokio::io::{AsyncReadExt, AsyncWriteExt};
use vcommon::{json, rng_for, Args, Report};
use zksync_concurrency::ctx;
use zksync_consensus_network::verif::NoiseStream;

use crate::transport::{duplex, Script, Stats, Tamper};

const SIZES: [usize; 10] = [1, 2, 15, 16, 17, 65518, 65519, 65520, 65535, 200_000];

fn pattern(i: usize) -> u8 {
    // self-identifying content: position dependent, period 65521 (prime, not a multiple of any frame size)
    ((i % 65521) as u32).wrapping_mul(2654435761).rotate_left(7) as u8 ^ (i / 65521) as u8
}

#[derive(Clone, Debug)]
struct Plan {
    /// (write size, flush afterwards)
    writes: Vec<(usize, bool)>,
    script_w: Script,
    script_r: Script,
    reader_buf: usize,
    reader_stall_every: usize,
    tamper: Tamper,
    /// the writer is the noise responder (it is in transport mode as soon as it has written its handshake message)
    writer_is_server: bool,
    /// the writer starts writing the moment its own handshake returns, without waiting for the reader's handshake
    eager: bool,
    /// the reader lets other tasks run this many times before it starts its handshake (coalesces what the writer sent meanwhile)
    reader_late: usize,
}

fn gen_script(rng: &mut StdRng) -> Script {
    let caps = [0usize, 1, 2, 3, 7, 100, 65536, 65537, 65538];
    Script {
        read_cap: caps[rng.gen_range(0..caps.len())],
        write_cap: caps[rng.gen_range(0..caps.len())],
        pending_permille: [0, 0, 100, 500][rng.gen_range(0..4)],
        capacity: [0usize, 0, 1, 10, 1000, 70_000][rng.gen_range(0..6)],
        random_chunks: rng.gen_bool(0.5),
    }
}

fn gen_plan(rng: &mut StdRng, small: bool) -> Plan {
    let n = rng.gen_range(1..if small { 5 } else { 12 });
    let mut writes = vec![];
    let mut total = 0;
    for _ in 0..n {
        let mut s = if rng.gen_bool(0.7) { SIZES[rng.gen_range(0..SIZES.len())] } else { rng.gen_range(1..5000) };
        if small {
            s = s.min(70_000);
        }
        if total + s > 600_000 {
            break;
        }
        total += s;
        writes.push((s, rng.gen_bool(0.4)));
    }
    if writes.is_empty() {
        writes.push((17, true));
    }
    let mut script_w = gen_script(rng);
    let mut script_r = gen_script(rng);
    // byte-sized chunks on hundreds of kB are only slow: keep them for small totals
    if total > 50_000 {
        for s in [&mut script_w, &mut script_r] {
            if s.read_cap > 0 && s.read_cap < 7 { s.read_cap = 100; }
            if s.write_cap > 0 && s.write_cap < 7 { s.write_cap = 100; }
            if s.capacity > 0 && s.capacity < 1000 { s.capacity = 1000; }
            s.pending_permille = s.pending_permille.min(100);
        }
    }
    Plan { writes, script_w, script_r, reader_buf: [1usize, 2, 16, 1000, 65519, 65520, 100_000][rng.gen_range(0..7)], reader_stall_every: [0usize, 0, 3, 10][rng.gen_range(0..4)], tamper: Tamper::None,
        writer_is_server: rng.gen_bool(0.5), eager: rng.gen_bool(0.5), reader_late: [0usize, 0, 1, 5, 50][rng.gen_range(0..5)] }
}

struct LateRead<T> {
    inner: T,
    skip: usize,
}

impl<T: tokio::io::AsyncRead + Unpin> tokio::io::AsyncRead for LateRead<T> {
    fn poll_read(mut self: std::pin::Pin<&mut Self>, cx: &mut std::task::Context<'_>, buf: &mut tokio::io::ReadBuf<'_>) -> std::task::Poll<std::io::Result<()>> {
        if self.skip > 0 {
            self.skip -= 1;
            cx.waker().wake_by_ref();
            return std::task::Poll::Pending;
        }
        std::pin::Pin::new(&mut self.inner).poll_read(cx, buf)
    }
}

impl<T: tokio::io::AsyncWrite + Unpin> tokio::io::AsyncWrite for LateRead<T> {
    fn poll_write(mut self: std::pin::Pin<&mut Self>, cx: &mut std::task::Context<'_>, buf: &[u8]) -> std::task::Poll<std::io::Result<usize>> {
        std::pin::Pin::new(&mut self.inner).poll_write(cx, buf)
    }
    fn poll_flush(mut self: std::pin::Pin<&mut Self>, cx: &mut std::task::Context<'_>) -> std::task::Poll<std::io::Result<()>> {
        std::pin::Pin::new(&mut self.inner).poll_flush(cx)
    }
    fn poll_shutdown(mut self: std::pin::Pin<&mut Self>, cx: &mut std::task::Context<'_>) -> std::task::Poll<std::io::Result<()>> {
        std::pin::Pin::new(&mut self.inner).poll_shutdown(cx)
    }
}

struct Outcome {
    sent: Vec<u8>,
    got: Vec<u8>,
    reader_end: String,
    writer_end: String,
    wire: Vec<u8>,
    deadlock: bool,
}

fn execute(seed: u64, plan: &Plan) -> Outcome {
    let rt = tokio::runtime::Builder::new_current_thread().enable_time().start_paused(true).build().unwrap();
    let total: usize = plan.writes.iter().map(|w| w.0).sum();
    let sent: Vec<u8> = (0..total).map(pattern).collect();
    let (a, b, stats): (_, _, Stats) = duplex(seed, plan.script_w, plan.script_r, Tamper::None, true);
    let plan2 = plan.clone();
    let sent2 = sent.clone();
    let res = rt.block_on(async move {
        let root = ctx::root();
        let (hs_tx, hs_rx) = tokio::sync::oneshot::channel::<()>();
        let stats2 = stats.clone();
        let writer = async {
            let hs = if plan2.writer_is_server { NoiseStream::server(&root, a).await } else { NoiseStream::client(&root, a).await };
            let mut s = match hs {
                Ok(s) => s,
                Err(e) => return format!("handshake: {e:?}"),
            };
            // wait until the reader finished its handshake too (unless eager), then arm the tamper stage: the writer's
            // handshake message has passed the stage completely by now, so frame numbering starts at its first data frame
            if !plan2.eager {
                let _ = hs_rx.await;
            }
            stats2.arm_a2b(plan2.tamper.clone());
            let mut off = 0;
            for (n, flush) in &plan2.writes {
                if let Err(e) = s.write_all(&sent2[off..off + n]).await {
                    return format!("write: {e}");
                }
                off += n;
                if *flush {
                    if let Err(e) = s.flush().await {
                        return format!("flush: {e}");
                    }
                }
            }
            if let Err(e) = s.flush().await {
                return format!("flush: {e}");
            }
            match s.shutdown().await {
                Ok(()) => "shutdown".to_string(),
                Err(e) => format!("shutdown: {e}"),
            }
        };
        let reader = async {
            let mut got = vec![];
            // the reader's transport answers its first `reader_late` read polls with Pending, so whatever the writer sent
            // meanwhile (its handshake message and, if eager, the first data frames) is delivered coalesced
            let b = LateRead { inner: b, skip: plan.reader_late };
            let hs = if plan.writer_is_server { NoiseStream::client(&root, b).await } else { NoiseStream::server(&root, b).await };
            let mut s = match hs {
                Ok(s) => s,
                Err(e) => return (got, format!("handshake: {e:?}")),
            };
            let _ = hs_tx.send(());
            let mut buf = vec![0u8; plan.reader_buf];
            let mut k = 0usize;
            loop {
                k += 1;
                if plan.reader_stall_every > 0 && k % plan.reader_stall_every == 0 {
                    for _ in 0..5 {
                        tokio::task::yield_now().await;
                    }
                }
                match s.read(&mut buf).await {
                    Ok(0) => return (got, "eof".to_string()),
                    Ok(n) => got.extend_from_slice(&buf[..n]),
                    Err(e) => return (got, format!("error: {e}")),
                }
                if got.len() > sent.len() + 100_000 {
                    return (got, "runaway".to_string());
                }
            }
        };
        let both = async { tokio::join!(writer, reader) };
        match tokio::time::timeout(std::time::Duration::from_secs(3600), both).await {
            Ok((w, (got, r))) => (got, r, w, false, stats.wire_a2b()),
            Err(_) => (vec![], "deadlock".into(), "deadlock".into(), true, stats.wire_a2b()),
        }
    });
    let total2: usize = plan.writes.iter().map(|w| w.0).sum();
    Outcome { sent: (0..total2).map(pattern).collect(), got: res.0, reader_end: res.1, writer_end: res.2, wire: res.4, deadlock: res.3 }
}

fn first_diff(a: &[u8], b: &[u8]) -> Option<usize> {
    a.iter().zip(b.iter()).position(|(x, y)| x != y)
}

/// parses the recorded ciphertext stream into frame lengths; None if it is not a sequence of `<u16 len><len bytes>`
fn frames(wire: &[u8]) -> Option<Vec<usize>> {
    let mut out = vec![];
    let mut p = 0;
    while p < wire.len() {
        if p + 2 > wire.len() {
            return None;
        }
        let n = u16::from_le_bytes([wire[p], wire[p + 1]]) as usize;
        if p + 2 + n > wire.len() {
            return None;
        }
        out.push(n);
        p += 2 + n;
    }
    Some(out)
}

pub fn run(args: &Args, rep: &mut Report) {
    rep.rule = "one evaluation = one encrypted session (real noise client/server over the scripted transport) with a generated write plan, transport script \
                (chunk caps, Pending injections, partial writes, bounded buffering, stalling reader) and at most one tampering of the ciphertext stream; \
                clean sessions must deliver exactly the written bytes, tampered ones a prefix then error/EOF; distinct = distinct (plan, tamper)"
        .into();
    let small = args.extra.contains_key("small");
    let n: u64 = args.extra_u64("cases").unwrap_or(args.pick(60, 1500));
    let only: Option<u64> = args.replay.as_ref().map(|p| {
        let v: vcommon::Value = vcommon::serde_json::from_slice(&std::fs::read(p).unwrap()).unwrap();
        v["replay"]["case"].as_u64().unwrap()
    });
    for case in 0..n {
        if let Some(o) = only { if o != case { continue; } } else if !rep.within_budget() { rep.count("stopped_by_budget"); break; }
        let mut rng = rng_for(args.seed, args.shard, 13, case);
        let plan = gen_plan(&mut rng, small || case % 3 != 0);
        // (1) clean run
        let out = match vcommon::catch(|| execute(args.seed ^ case, &plan)) {
            Ok(o) => o,
            Err(p) => {
                rep.violation(format!("panic|{}|noise-stream", p.loc()), format!("clean session panicked: {}; plan {plan:?}", p.message), json!({"case": case, "tamper": "none"}));
                continue;
            }
        };
        rep.evaluations += 1;
        rep.count("clean_sessions");
        rep.add("plaintext_bytes_checked", out.sent.len() as u64);
        let replay = json!({"case": case, "tamper": "none"});
        if out.deadlock {
            rep.violation("session-deadlock||clean".to_string(), format!("clean session never completed (virtual-time deadlock); plan {plan:?}"), replay.clone());
        } else if out.got != out.sent {
            let d = first_diff(&out.got, &out.sent);
            rep.violation("bytes-differ||clean".to_string(), format!("reader got {} bytes (ended with {}), writer sent {} (ended with {}); first difference at {:?}; plan {plan:?}", out.got.len(), out.reader_end, out.sent.len(), out.writer_end, d), replay.clone());
        } else if out.reader_end != "eof" || out.writer_end != "shutdown" {
            rep.violation("unexpected-end||clean".to_string(), format!("reader ended with {}, writer with {}", out.reader_end, out.writer_end), replay.clone());
        }
        let fr = frames(&out.wire);
        match &fr {
            None => rep.violation("wire-not-framed||".to_string(), "ciphertext stream is not a sequence of <u16 len><len bytes> frames".to_string(), replay.clone()),
            Some(f) => {
                rep.add("wire_frames_checked", f.len() as u64);
                rep.max("max_wire_frame_len", f.iter().copied().max().unwrap_or(0) as u64);
                if f.iter().any(|n| *n + 2 > 65537) {
                    rep.violation("wire-frame-too-long||".to_string(), "frame longer than the protocol limit".to_string(), replay.clone());
                }
                if f.iter().any(|n| *n == 65535) { rep.count("sessions_with_maximal_frame"); }
            }
        }
        rep.distinct(vcommon::hash_of(&format!("{plan:?}")));
        if plan.script_w.capacity > 0 { rep.count("sessions_with_back_pressure"); }
        if plan.writer_is_server { rep.count("sessions_written_by_the_responder"); }
        if plan.writer_is_server && plan.eager && plan.reader_late > 0 { rep.count("sessions_responder_writes_before_the_initiator_finished_its_handshake"); }
        if plan.script_w.pending_permille > 0 || plan.script_r.pending_permille > 0 { rep.count("sessions_with_pending_injection"); }
        // (2) tamper enumeration on this session's data frames (handshake = first 1 frame in this direction)
        let Some(fr) = fr else { continue };
        let data_frames: Vec<usize> = fr.iter().skip(1).copied().collect();
        if data_frames.is_empty() {
            continue;
        }
        let nf = data_frames.len();
        let mut tampers: Vec<Tamper> = vec![];
        // every frame in thorough / small sessions, a sample otherwise
        let pick: Vec<usize> = if nf <= 4 || args.thorough() { (0..nf).collect() } else { vec![0, nf / 2, nf - 1] };
        for f in pick {
            let len = data_frames[f];
            for (offset, bit) in [(0usize, 0u8), (1, 7), (2, 3), (2 + len / 2, 5), (1 + len, 0), (2 + len.saturating_sub(16), 2)] {
                tampers.push(Tamper::FlipBit { frame: f, offset, bit });
            }
            for offset in [0usize, 1, 2, 2 + len / 2, 1 + len] {
                tampers.push(Tamper::Truncate { frame: f, offset });
            }
            tampers.push(Tamper::DropFrame { frame: f });
            tampers.push(Tamper::DuplicateFrame { frame: f });
            if f + 1 < nf {
                tampers.push(Tamper::SwapWithNext { frame: f });
            }
            if f > 0 {
                tampers.push(Tamper::Replay { frame: f, earlier: rng.gen_range(0..f) });
            }
        }
        if !args.thorough() && tampers.len() > 12 {
            use rand::seq::SliceRandom;
            tampers.shuffle(&mut rng);
            tampers.truncate(12);
        }
        for t in tampers {
            let mut p2 = plan.clone();
            p2.tamper = t.clone();
            let o = match vcommon::catch(|| execute(args.seed ^ case, &p2)) {
                Ok(o) => o,
                Err(p) => {
                    rep.violation(format!("panic|{}|noise-stream", p.loc()), format!("session with {t:?} panicked: {}", p.message), json!({"case": case, "tamper": format!("{t:?}")}));
                    continue;
                }
            };
            rep.evaluations += 1;
            rep.count("tampered_sessions");
            rep.count(&format!("tamper_{}", format!("{t:?}").split(' ').next().unwrap_or("?")));
            let replay = json!({"case": case, "tamper": format!("{t:?}")});
            rep.distinct(vcommon::hash_of(&format!("{p2:?}")));
            if o.deadlock {
                // e.g. a dropped last frame with the writer blocked: nobody ever completes. Delivery of a correct prefix
                // still holds; a stalled session is not plaintext corruption.
                rep.count("tampered_sessions_stalled");
                continue;
            }
            let is_prefix = o.got.len() <= o.sent.len() && o.got[..] == o.sent[..o.got.len()];
            if !is_prefix {
                let d = first_diff(&o.got, &o.sent);
                rep.violation(
                    format!("tampered-plaintext-delivered||{}", format!("{t:?}").split(' ').next().unwrap_or("?")),
                    format!("after {t:?} the reader obtained bytes that are not a prefix of what was written: got {} bytes, first difference at {:?}, ended with {}; plan {plan:?}", o.got.len(), d, o.reader_end),
                    replay.clone(),
                );
            }
            if o.got.len() == o.sent.len() && o.reader_end == "eof" {
                rep.count("tamper_had_no_effect");
            } else {
                rep.count("tamper_detected_by_reader");
            }
        }
        if rep.samples.len() < rep.max_samples {
            rep.sample(json!({"case": case, "writes(size,flush)": plan.writes, "writer_transport": format!("{:?}", plan.script_w), "reader_transport": format!("{:?}", plan.script_r),
                "reader_buf": plan.reader_buf, "wire_frames": fr.len(), "bytes": out.sent.len()}));
        }
    }
}
