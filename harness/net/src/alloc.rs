//! Counting global allocator: current and peak live bytes (process-wide).
use std::{
    alloc::{GlobalAlloc, Layout, System},
    sync::atomic::{AtomicUsize, Ordering},
};

pub struct Counting;

static CUR: AtomicUsize = AtomicUsize::new(0);
static PEAK: AtomicUsize = AtomicUsize::new(0);

unsafe impl GlobalAlloc for Counting {
    unsafe fn alloc(&self, l: Layout) -> *mut u8 {
        let p = System.alloc(l);
        if !p.is_null() {
            let c = CUR.fetch_add(l.size(), Ordering::Relaxed) + l.size();
            PEAK.fetch_max(c, Ordering::Relaxed);
        }
        p
    }
    unsafe fn dealloc(&self, p: *mut u8, l: Layout) {
        CUR.fetch_sub(l.size(), Ordering::Relaxed);
        System.dealloc(p, l)
    }
    unsafe fn realloc(&self, p: *mut u8, l: Layout, new: usize) -> *mut u8 {
        let q = System.realloc(p, l, new);
        if !q.is_null() {
            if new > l.size() {
                let c = CUR.fetch_add(new - l.size(), Ordering::Relaxed) + (new - l.size());
                PEAK.fetch_max(c, Ordering::Relaxed);
            } else {
                CUR.fetch_sub(l.size() - new, Ordering::Relaxed);
            }
        }
        q
    }
}

/// starts a measurement: returns the baseline of live bytes
pub fn start() -> usize {
    let c = CUR.load(Ordering::Relaxed);
    PEAK.store(c, Ordering::Relaxed);
    c
}

/// peak of live bytes above the baseline since `start`
pub fn peak_above(base: usize) -> usize {
    PEAK.load(Ordering::Relaxed).saturating_sub(base)
}
