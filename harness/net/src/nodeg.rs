//! Node-level gossip monitor (C08 / C18 / C19): a REAL node (`testonly::Instance` = production `Network` runner, block fetcher,
//! fetch queue, gossip `run_stream`, validator network dialler, over a real `EngineManager` with an empty in-memory store) is
//! surrounded by 2-4 raw gossip peers written in the harness (through the verif facade). Peers announce ranges of a certified
//! chain, answer `get_block` honestly or with lies (wrong number, altered payload, broken certificate, nothing, no answer), get
//! disconnected and reconnect, and push validator-address batches (genuine / forged / non-member / altered) whose addresses are
//! harness listeners. Observed at the boundary:
//!   C19  every `get_block` the node sends to a peer is for a block inside a range that peer announced on that very connection;
//!        with one honest peer announcing everything, the node ends up with the whole chain (a node that stops asking while
//!        blocks are missing has lost a request);
//!   C08  whatever the node stores is the certified chain, block by block, never a lie;
//!   C18  the node dials, and gossips on, only genuinely signed announcements of committee members, and the address it dials for a
//!        validator only ever moves to a strictly newer (version, timestamp) announcement.
use std::{
    collections::BTreeMap,
    sync::{
        atomic::{AtomicBool, AtomicU64, Ordering},
        Arc, Mutex,
    },
    time::Instant,
};

use rand::{rngs::StdRng, Rng};
use vcommon::{json, rng_for, Args, Report};
use zksync_concurrency::{ctx, limiter, scope, time};
use zksync_consensus_engine::{testonly::TestEngine, BlockStoreState, Last};
use zksync_consensus_network::{testonly, verif};
use zksync_consensus_roles::validator;

type Ann = Arc<validator::Signed<validator::NetAddress>>;

#[derive(Clone, Copy, Debug, PartialEq)]
enum Lie {
    None,
    WrongNumber,
    AlteredPayload,
    BrokenCertificate,
    Nothing,
    NoAnswer,
}

#[derive(Debug, Clone)]
enum Ev {
    Connected { peer: usize, conn: u64 },
    Ended { peer: usize, conn: u64 },
    Announced { peer: usize, conn: u64, first: u64, last: Option<u64> },
    GetBlock { peer: usize, conn: u64, n: u64 },
    Answered { peer: usize, n: u64, lie: Lie },
    AddrsPushed { peer: usize, items: Vec<usize> },
    AddrsReceived { peer: usize, conn: u64, entries: Vec<Ann> },
    Dial { item: usize },
    /// the node announced its own store on this connection; `genuine` = its head is the certified chain's block
    NodeAnnounced { peer: usize, first: u64, last: Option<u64>, genuine: bool },
    /// a peer asked the node for block `n`; `in_range` = inside the range the node had announced to this peer before the call;
    /// outcome: 0 = served the certified block, 1 = served something else, 2 = answered "not available", 3 = no answer (error)
    AskedNode { peer: usize, n: u64, in_range: bool, outcome: u8 },
}

struct Item {
    ann: Ann,
    class: &'static str,
    genuine: bool,
    member: bool,
}

struct Shared {
    t0: Instant,
    log: Mutex<Vec<(u128, Ev)>>,
    chain: Vec<validator::Block>,
    first: u64,
    done: AtomicBool,
    final_phase: AtomicBool,
}

impl Shared {
    fn ev(&self, e: Ev) {
        self.log.lock().unwrap().push((self.t0.elapsed().as_millis(), e));
    }
    fn block(&self, n: u64) -> Option<&validator::Block> {
        n.checked_sub(self.first).and_then(|i| self.chain.get(i as usize))
    }
    fn state(&self, lo: u64, hi: Option<u64>) -> BlockStoreState {
        BlockStoreState { first: validator::BlockNumber(lo), last: hi.and_then(|h| self.block(h)).map(Last::from) }
    }
}

struct Probe {
    sh: Arc<Shared>,
    peer: usize,
    conn: AtomicU64,
    lies: Vec<Lie>,
    rng: Mutex<StdRng>,
    /// the range the node announced last on the current connection
    node_state: Mutex<Option<(u64, Option<u64>)>>,
}

#[async_trait::async_trait]
impl verif::GossipProbe for Probe {
    async fn get_block(&self, ctx: &ctx::Ctx, number: validator::BlockNumber) -> anyhow::Result<Option<validator::Block>> {
        let n = number.0;
        self.sh.ev(Ev::GetBlock { peer: self.peer, conn: self.conn.load(Ordering::SeqCst), n });
        let lie = {
            let mut r = self.rng.lock().unwrap();
            if self.sh.final_phase.load(Ordering::SeqCst) && self.peer == 0 { Lie::None } else { self.lies[r.gen_range(0..self.lies.len())] }
        };
        let honest = self.sh.block(n).cloned();
        let resp = match lie {
            Lie::None => honest,
            Lie::WrongNumber => if n % 2 == 0 { self.sh.block(n + 1).or(self.sh.block(n.wrapping_sub(1))) } else { self.sh.block(n.wrapping_sub(1)).or(self.sh.block(n + 1)) }.cloned(),
            Lie::AlteredPayload => honest.map(|b| match b {
                validator::Block::FinalV2(mut f) => {
                    f.payload.0.push(7);
                    f.into()
                }
                validator::Block::PreGenesis(mut p) => {
                    p.payload.0.push(7);
                    p.into()
                }
            }),
            Lie::BrokenCertificate => honest.map(|b| match b {
                validator::Block::FinalV2(mut f) => {
                    f.justification.signature = Default::default();
                    f.into()
                }
                validator::Block::PreGenesis(mut p) => {
                    p.justification = validator::Justification(vec![1, 2, 3]);
                    p.into()
                }
            }),
            Lie::Nothing => None,
            Lie::NoAnswer => {
                ctx.canceled().await;
                None
            }
        };
        self.sh.ev(Ev::Answered { peer: self.peer, n, lie });
        Ok(resp)
    }
    async fn push_block_store_state(&self, _ctx: &ctx::Ctx, state: BlockStoreState) -> anyhow::Result<()> {
        let last = state.last.as_ref().map(|l| l.number().0);
        let genuine = match (&state.last, last.and_then(|n| self.sh.block(n))) {
            (None, _) => true,
            (Some(l), Some(b)) => *l == Last::from(b),
            (Some(_), None) => false,
        };
        *self.node_state.lock().unwrap() = Some((state.first.0, last));
        self.sh.ev(Ev::NodeAnnounced { peer: self.peer, first: state.first.0, last, genuine });
        Ok(())
    }
    async fn push_validator_addrs(&self, _ctx: &ctx::Ctx, addrs: Vec<Ann>) -> anyhow::Result<()> {
        self.sh.ev(Ev::AddrsReceived { peer: self.peer, conn: self.conn.load(Ordering::SeqCst), entries: addrs });
        Ok(())
    }
}

fn newer(a: &validator::NetAddress, b: &validator::NetAddress) -> bool {
    (a.version, a.timestamp) > (b.version, b.timestamp)
}

fn run_case(rep: &mut Report, args: &Args, case: u64, rt: &tokio::runtime::Runtime) {
    let prop = args.prop.clone();
    let mut rng: StdRng = rng_for(args.seed, args.shard, 130, case);
    let nval = rng.gen_range(2..=4usize);
    let mut setup = validator::testonly::Setup::new(&mut rng, nval);
    let nblocks = rng.gen_range(12..36usize);
    setup.push_blocks_v2(&mut rng, nblocks);
    let chain = setup.blocks.clone();
    let first = chain[0].number().0;
    let last = chain.last().unwrap().number().0;
    let mut cfg = testonly::new_configs(&mut rng, &setup, 0)[0].clone();
    let fast = limiter::Rate { burst: 1000, refresh: time::Duration::milliseconds(1) };
    cfg.rpc.get_block_timeout = Some(time::Duration::milliseconds(1500));
    cfg.rpc.get_block_rate = fast;
    cfg.rpc.push_validator_addrs_rate = fast;
    cfg.rpc.push_block_store_state_rate = fast;
    cfg.max_block_queue_size = rng.gen_range(1..=10);
    let npeers = rng.gen_range(2..=4usize);
    let idents: Vec<_> = (0..npeers).map(|_| testonly::new_fullnode(&mut rng, &cfg)).collect();
    let all_lies = [Lie::WrongNumber, Lie::AlteredPayload, Lie::BrokenCertificate, Lie::Nothing, Lie::NoAnswer];
    let lies: Vec<Vec<Lie>> = (0..npeers)
        .map(|p| {
            if p == 0 || rng.gen_bool(0.15) {
                vec![Lie::None]
            } else {
                // lies about every second answer on average
                vec![Lie::None, all_lies[rng.gen_range(0..all_lies.len())]]
            }
        })
        .collect();
    // address items: each announces its own harness listener
    let outsiders: Vec<validator::SecretKey> = (0..2).map(|_| rng.gen()).collect();
    let members = setup.validator_keys.clone();
    let nitems = rng.gen_range(4..14usize);
    let mut items: Vec<Item> = vec![];
    let mut listeners = vec![];
    for _ in 0..nitems {
        let (laddr, l) = crate::transport::listen_localhost_std();
        // validator 0 is the node itself (its own entry comes from its config): announce the others
        let k = &members[rng.gen_range(1..members.len())];
        let msg = validator::NetAddress {
            addr: laddr,
            version: [0u64, 1, 2, 3, u64::MAX - 1, u64::MAX][rng.gen_range(0..6)],
            timestamp: time::UNIX_EPOCH + time::Duration::seconds([0i64, 1, 2, 1_000_000][rng.gen_range(0..4)]) + time::Duration::milliseconds([0i64, 100, 900][rng.gen_range(0..3)]),
        };
        let it = match rng.gen_range(0..8) {
            0 => {
                let mut s = k.sign_msg(msg.clone());
                s.sig = outsiders[0].sign_msg(msg).sig;
                Item { ann: Arc::new(s), class: "forged-signature-by-other-key", genuine: false, member: true }
            }
            1 => {
                // a genuine announcement of another address, redirected to this listener after signing
                let mut s = k.sign_msg(validator::NetAddress { addr: "10.1.2.3:4567".parse().unwrap(), ..msg.clone() });
                s.msg.addr = laddr;
                Item { ann: Arc::new(s), class: "address-altered-after-signing", genuine: false, member: true }
            }
            2 => Item { ann: Arc::new(outsiders[1].sign_msg(msg)), class: "non-member", genuine: true, member: false },
            _ => Item { ann: Arc::new(k.sign_msg(msg)), class: "valid", genuine: true, member: true },
        };
        items.push(it);
        listeners.push(l);
    }
    let items = Arc::new(items);
    let sh = Arc::new(Shared { t0: Instant::now(), log: Mutex::default(), chain, first, done: AtomicBool::new(false), final_phase: AtomicBool::new(false) });
    let genesis = setup.genesis_hash();
    let node_key = cfg.gossip.key.public();
    let addr = *cfg.server_addr;
    let seed = rng.gen::<u64>();
    let store_violations: Mutex<Vec<String>> = Mutex::default();
    let completed = AtomicBool::new(false);
    let stored_next = AtomicU64::new(first);
    let (giveup, giveup_ms) = (AtomicU64::new(0), AtomicU64::new(0));
    let fut = async {
        let root = ctx::root();
        let (sh, items, idents, lies, setup, cfg, listeners) = (&sh, &items, &idents, &lies, &setup, &cfg, &mut listeners);
        let (store_violations, completed, stored_next, node_key, giveup) = (&store_violations, &completed, &stored_next, &node_key, &giveup);
        let giveup_ms = &giveup_ms;
        let r: anyhow::Result<()> = scope::run!(&root, |ctx, s| async move {
            let engine = TestEngine::new_with_first_block(ctx, setup, validator::BlockNumber(first)).await;
            s.spawn_bg(engine.runner.run(ctx));
            let manager = engine.manager.clone();
            let (_node, runner) = testonly::Instance::new(cfg.clone(), engine.manager.clone());
            s.spawn_bg(async move {
                let _ = runner.run(ctx).await;
                Ok(())
            });
            // listeners behind the announced addresses: log the dial, then hang up
            for (i, l) in listeners.drain(..).enumerate() {
                let Ok(mut listener) = tokio::net::TcpListener::from_std(l) else { continue };
                s.spawn_bg(async move {
                    while let Ok(tcp) = verif::tcp_accept(ctx, &mut listener).await {
                        sh.ev(Ev::Dial { item: i });
                        drop(tcp);
                    }
                    Ok(())
                });
            }
            for _ in 0..200 {
                if verif::tcp_connect(ctx, addr).await.is_ok() {
                    break;
                }
                let _ = ctx.sleep(time::Duration::milliseconds(20)).await;
            }
            // raw peers
            for p in 0..npeers {
                let probe = Arc::new(Probe { sh: sh.clone(), peer: p, conn: AtomicU64::new(0), lies: lies[p].clone(), rng: Mutex::new(rng_for(seed, p as u64, 131, 0)), node_state: Mutex::default() });
                let mut ro = rng_for(seed, p as u64, 132, 0);
                s.spawn_bg(async move {
                    let mut conn = 0u64;
                    // liars give up after 8 connections; the honest peer 0 always comes back
                    while !sh.done.load(Ordering::SeqCst) && (conn < 8 || p == 0) {
                        let c = ctx.with_timeout(time::Duration::seconds(5));
                        let Ok(mut stream) = verif::preface_connect(&c, addr, verif::Endpoint::GossipNet).await else {
                            let _ = ctx.sleep(time::Duration::milliseconds(30)).await;
                            continue;
                        };
                        if verif::gossip_handshake_outbound(&c, &idents[p], genesis, &mut stream, node_key).await.is_err() {
                            let _ = ctx.sleep(time::Duration::milliseconds(30)).await;
                            continue;
                        }
                        conn += 1;
                        *probe.node_state.lock().unwrap() = None;
                        probe.conn.store(conn, Ordering::SeqCst);
                        sh.ev(Ev::Connected { peer: p, conn });
                        let clients = verif::GossipClients::new(ctx);
                        let ended = AtomicBool::new(false);
                        let mut r2 = rng_for(seed ^ conn, p as u64, 134, 0);
                        let (probe, clients, ended, r) = (&probe, &clients, &ended, &mut r2);
                        let _: Result<(), ()> = scope::run!(ctx, |ctx, s| async move {
                            s.spawn_bg(async move {
                                let _ = verif::run_gossip_peer(ctx, stream, &**probe, clients).await;
                                ended.store(true, Ordering::SeqCst);
                                Ok(())
                            });
                            // script of this connection
                            let (mut lo, mut hi) = (first + r.gen_range(0..6), first + r.gen_range(0..10));
                            let mut announced_full = false;
                            while !ended.load(Ordering::SeqCst) && !sh.done.load(Ordering::SeqCst) {
                                let fin = sh.final_phase.load(Ordering::SeqCst);
                                if fin && p == 0 {
                                    if !announced_full {
                                        sh.ev(Ev::Announced { peer: p, conn, first, last: Some(last) });
                                        let c = ctx.with_timeout(time::Duration::seconds(2));
                                        if clients.push_block_store_state(&c, sh.state(first, Some(last))).await.is_ok() {
                                            announced_full = true;
                                        }
                                    }
                                } else if r.gen_bool(0.5) {
                                    // a (mostly growing) range of the chain; sometimes empty, sometimes beyond the chain's end
                                    hi = (hi + r.gen_range(0..8)).min(last + 2);
                                    if r.gen_bool(0.1) {
                                        lo = (lo + r.gen_range(0..3)).min(hi);
                                    }
                                    let l = if hi < lo || r.gen_bool(0.05) { None } else { Some(hi.min(last)) };
                                    sh.ev(Ev::Announced { peer: p, conn, first: lo, last: l });
                                    let c = ctx.with_timeout(time::Duration::seconds(2));
                                    let _ = clients.push_block_store_state(&c, sh.state(lo, l)).await;
                                } else if r.gen_bool(0.5) {
                                    // the peer asks the NODE for a block: mostly one the node has announced to it, sometimes around
                                    let st = *probe.node_state.lock().unwrap();
                                    let n = match st {
                                        Some((f, Some(l))) if r.gen_bool(0.8) => r.gen_range(f..=l),
                                        _ => (first + r.gen_range(0..(last - first + 4))).saturating_sub(2),
                                    };
                                    let in_range = matches!(st, Some((f, Some(l))) if f <= n && n <= l);
                                    let c = ctx.with_timeout(time::Duration::seconds(2));
                                    let outcome = match clients.get_block(&c, validator::BlockNumber(n), 10_000_000).await {
                                        Ok(Some(b)) => if sh.block(n) == Some(&b) { 0 } else { 1 },
                                        Ok(None) => 2,
                                        Err(_) => 3,
                                    };
                                    sh.ev(Ev::AskedNode { peer: p, n, in_range, outcome });
                                } else if r.gen_bool(0.4) && !items.is_empty() {
                                    let k = r.gen_range(1..=3usize);
                                    let picks: Vec<usize> = (0..k).map(|_| r.gen_range(0..items.len())).collect();
                                    sh.ev(Ev::AddrsPushed { peer: p, items: picks.clone() });
                                    let c = ctx.with_timeout(time::Duration::seconds(2));
                                    let _ = clients.push_validator_addrs(&c, picks.iter().map(|i| items[*i].ann.clone()).collect()).await;
                                }
                                let _ = ctx.sleep(time::Duration::milliseconds(r.gen_range(3..40))).await;
                            }
                            Ok(())
                        })
                        .await;
                        sh.ev(Ev::Ended { peer: p, conn });
                        let _ = ctx.sleep(time::Duration::milliseconds(ro.gen_range(10..60))).await;
                    }
                    Ok(())
                });
            }
            // controller + store prober
            let check_store = |upto: u64| {
                let manager = manager.clone();
                async move {
                    let q = manager.queued();
                    let next = q.next().0;
                    for n in q.first.0.max(upto)..next {
                        match manager.get_block(ctx, validator::BlockNumber(n)).await {
                            Ok(Some(b)) => {
                                if sh.block(n) != Some(&b) {
                                    store_violations.lock().unwrap().push(format!("block {n} in the node's store is not block {n} of the certified chain"));
                                }
                            }
                            _ => store_violations.lock().unwrap().push(format!("block {n} is inside the node's queued range [{}, {}) but cannot be read", q.first.0, next)),
                        }
                    }
                    next
                }
            };
            let mut r = rng_for(seed, 99, 133, 0);
            let phase1 = r.gen_range(200..700u64);
            let mut checked = first;
            let t = Instant::now();
            while (t.elapsed().as_millis() as u64) < phase1 {
                checked = check_store(checked).await;
                let _ = ctx.sleep(time::Duration::milliseconds(25)).await;
            }
            sh.final_phase.store(true, Ordering::SeqCst);
            // final phase: peer 0 announces and serves everything; wait for the node to hold the whole chain
            let t = Instant::now();
            loop {
                checked = check_store(checked).await;
                stored_next.store(checked, Ordering::SeqCst);
                if checked > last {
                    completed.store(true, Ordering::SeqCst);
                    break;
                }
                if t.elapsed().as_secs() >= 45 {
                    giveup.store(sh.log.lock().unwrap().len() as u64, Ordering::SeqCst);
                    giveup_ms.store(sh.t0.elapsed().as_millis() as u64, Ordering::SeqCst);
                    break;
                }
                let _ = ctx.sleep(time::Duration::milliseconds(25)).await;
            }
            // a last full read-back
            let _ = check_store(first).await;
            // let pending address gossip and dials drain a little
            let _ = ctx.sleep(time::Duration::milliseconds(150)).await;
            sh.done.store(true, Ordering::SeqCst);
            Ok(())
        })
        .await;
        let _ = r;
    };
    let finished = rt.block_on(crate::transport::leak_on_timeout(150, fut)).is_some();
    rep.evaluations += 1;
    rep.count("node_gossip_cases");
    if !finished {
        rep.inconclusive(format!("node gossip case {case} hit the 150 s wall-clock watchdog"));
        return;
    }
    let log = sh.log.lock().unwrap().clone();
    let trace: Vec<String> = log.iter().filter(|(_, e)| !matches!(e, Ev::AddrsReceived { .. })).take(400).map(|(t, e)| format!("{t}ms {e:?}")).collect();
    let replay = json!({"case": case, "kind": "node-gossip", "peers": npeers, "lies": format!("{lies:?}"), "chain": [first, last], "trace": trace});
    // ---- C19: requests only to peers that announced the block on this connection
    let mut announced: BTreeMap<(usize, u64), Vec<(u64, u64)>> = BTreeMap::new();
    let (mut nreq, mut nlies) = (0u64, 0u64);
    for (_, e) in &log {
        match e {
            Ev::Announced { peer, conn, first, last: Some(l) } => announced.entry((*peer, *conn)).or_default().push((*first, *l)),
            Ev::GetBlock { peer, conn, n } => {
                nreq += 1;
                let ok = announced.get(&(*peer, *conn)).map(|v| v.iter().any(|(f, l)| f <= n && n <= l)).unwrap_or(false);
                if !ok && prop == "C19" {
                    rep.violation(
                        "request-sent-to-peer-that-never-announced-the-block||node".to_string(),
                        format!("the node asked peer {peer} (connection {conn}) for block {n}; ranges announced on that connection so far: {:?}", announced.get(&(*peer, *conn))),
                        replay.clone(),
                    );
                }
            }
            Ev::Answered { lie, .. } if *lie != Lie::None => nlies += 1,
            _ => {}
        }
    }
    rep.add("get_block_requests_observed_at_peers", nreq);
    rep.add("lying_answers_given", nlies);
    rep.add("peer_connections", log.iter().filter(|(_, e)| matches!(e, Ev::Connected { .. })).count() as u64);
    rep.add("peer_reconnections_after_a_disconnect", log.iter().filter(|(_, e)| matches!(e, Ev::Connected { conn, .. } if *conn > 1)).count() as u64);
    // ---- C19: nothing is lost - with an honest peer serving everything the node gets the whole chain
    if completed.load(Ordering::SeqCst) {
        rep.count("node_synced_whole_chain");
        rep.add("blocks_synced_by_the_node", last - first + 1);
    } else {
        // the situation at the moment the controller gave up (the shutdown that follows ends every connection)
        let upto = &log[..(giveup.load(Ordering::SeqCst) as usize).min(log.len())];
        let last_req = upto.iter().rev().find(|(_, e)| matches!(e, Ev::GetBlock { .. })).map(|x| x.0).unwrap_or(0);
        let end = giveup_ms.load(Ordering::SeqCst) as u128;
        let honest_up = upto.iter().rev().find_map(|(_, e)| match e {
            Ev::Connected { peer: 0, .. } => Some(true),
            Ev::Ended { peer: 0, .. } => Some(false),
            _ => None,
        }) == Some(true);
        let full_announced = log.iter().any(|(_, e)| matches!(e, Ev::Announced { peer: 0, last: Some(l), .. } if *l == last));
        // the lowest missing block has to be asked for: a node that keeps asking the honest peer for higher blocks but, for 30 s,
        // nobody for exactly the lowest block it misses has lost that request
        let missing = stored_next.load(Ordering::SeqCst);
        let asked_recently = upto.iter().any(|(t, e)| matches!(e, Ev::GetBlock { n, .. } if *n == missing) && end.saturating_sub(*t) < 30_000);
        // (the node is demonstrably alive and fetching: it asked the honest peer for higher blocks during those 30 s)
        let higher_from_honest = upto.iter().filter(|(t, e)| matches!(e, Ev::GetBlock { peer: 0, n, .. } if *n > missing) && end.saturating_sub(*t) < 30_000).count();
        if full_announced && higher_from_honest >= 5 && !asked_recently && prop == "C19" {
            rep.violation(
                "lowest-missing-block-not-requested||node".to_string(),
                format!("block {missing} is the lowest block the node misses; during the last 30 s it asked the honest peer (announcing [{first}, {last}]) for {higher_from_honest} higher blocks, but nobody for block {missing}"),
                replay.clone(),
            );
        } else if honest_up && full_announced && end.saturating_sub(last_req) > 20_000 {
            if prop == "C19" {
                rep.violation(
                    "request-lost||node".to_string(),
                    format!("an honest peer announcing [{first}, {last}] stayed connected, the node holds blocks below {} only and has not asked any peer for a block for {} ms", stored_next.load(Ordering::SeqCst), end.saturating_sub(last_req)),
                    replay.clone(),
                );
            }
        } else {
            rep.inconclusive(format!("node gossip case {case}: chain not complete after 45 s (honest peer up: {honest_up}, full range announced: {full_announced})"));
        }
    }
    // ---- C08: the store holds the certified chain only
    if prop == "C08" {
        for d in store_violations.lock().unwrap().iter().take(2) {
            rep.violation("node-store-differs-from-certified-chain||node".to_string(), d.clone(), replay.clone());
        }
    }
    // ---- C08: what the node reports as available, it serves - and only the certified chain
    for (_, e) in &log {
        match e {
            Ev::NodeAnnounced { peer, first: f, last: l, genuine } => {
                rep.count("store_states_announced_by_the_node");
                if !genuine && prop == "C08" {
                    rep.violation("node-announced-a-head-that-is-not-the-certified-block||node".to_string(), format!("the node announced [{f}, {l:?}] to peer {peer} with a head that is not the certified block of that number"), replay.clone());
                }
            }
            Ev::AskedNode { peer, n, in_range, outcome } => {
                rep.count("blocks_requested_from_the_node");
                match outcome {
                    0 => rep.count("blocks_served_by_the_node"),
                    1 if prop == "C08" => rep.violation("node-served-a-block-that-is-not-the-certified-one||node".to_string(), format!("peer {peer} asked the node for block {n} and got a different block than the certified one"), replay.clone()),
                    2 if *in_range => {
                        rep.count("announced_blocks_answered_not_available");
                        if prop == "C08" {
                            rep.violation("announced-block-not-served||node".to_string(), format!("the node had announced a range containing block {n} to peer {peer} (nothing is ever pruned here) but answered that it does not have it"), replay.clone());
                        }
                    }
                    2 => rep.count("unannounced_blocks_answered_not_available"),
                    _ => rep.count("block_requests_to_the_node_without_answer"),
                }
            }
            _ => {}
        }
    }
    // ---- C18: dials and gossip
    let committee: Vec<validator::PublicKey> = members.iter().map(|k| k.public()).collect();
    let mut dialled: BTreeMap<validator::PublicKey, Vec<usize>> = BTreeMap::new();
    for (_, e) in &log {
        match e {
            Ev::Dial { item } => {
                rep.count("dials_observed");
                let it = &items[*item];
                if (!it.genuine || !it.member) && prop == "C18" {
                    rep.violation(format!("dialled-unauthentic-address||node/{}", it.class), format!("the node dialled the address of announcement #{item} ({})", it.class), replay.clone());
                }
                let v = dialled.entry(it.ann.key.clone()).or_default();
                if v.last() != Some(item) {
                    if let Some(prev) = v.last() {
                        if !newer(&it.ann.msg, &items[*prev].ann.msg) && prop == "C18" {
                            rep.violation(
                                "dialled-older-address-after-newer||node".to_string(),
                                format!("after dialling announcement #{prev} (version {}, {:?}) the node dialled #{item} (version {}, {:?}) of the same validator", items[*prev].ann.msg.version, items[*prev].ann.msg.timestamp, it.ann.msg.version, it.ann.msg.timestamp),
                                replay.clone(),
                            );
                        }
                    }
                    v.push(*item);
                }
            }
            Ev::AddrsReceived { entries, .. } => {
                for a in entries {
                    rep.count("address_entries_gossiped_by_the_node");
                    if (a.verify().is_err() || !committee.contains(&a.key)) && prop == "C18" {
                        rep.violation("gossiped-unauthentic-address||node".to_string(), format!("the node gossiped an announcement of {:?} that is not validly signed by a committee member", a.key), replay.clone());
                    }
                }
            }
            _ => {}
        }
    }
    rep.add("address_batches_pushed_to_the_node", log.iter().filter(|(_, e)| matches!(e, Ev::AddrsPushed { .. })).count() as u64);
    rep.add("validators_dialled_at_more_than_one_address", dialled.values().filter(|v| v.len() > 1).count() as u64);
    rep.distinct(vcommon::hash_of(&(args.shard, case, nreq, log.len())));
    if rep.samples.len() < rep.max_samples {
        rep.sample(json!({"case": case, "chain": [first, last], "peers": npeers, "lies": format!("{lies:?}"), "get_block_requests": nreq, "lying_answers": nlies,
            "synced": completed.load(Ordering::SeqCst), "address_items": items.iter().map(|i| i.class).collect::<Vec<_>>(), "dials": dialled.values().map(|v| v.len()).sum::<usize>(), "events": log.len()}));
    }
}

pub fn run(args: &Args, rep: &mut Report) {
    rep.rule = "one evaluation = one real node (production Network runner + block fetcher + EngineManager with an empty store) surrounded by 2-4 raw gossip peers that announce ranges of a \
                certified chain of 12-35 blocks (+ pre-genesis), answer get_block honestly or with lies (wrong number, altered payload, broken certificate, nothing, no answer), reconnect after \
                being dropped, and push genuine / forged / non-member address announcements pointing at harness listeners; checked: requests only for announced blocks, the whole chain arrives, \
                the store equals the certified chain, dials and gossip use only authentic, strictly newer announcements; distinct = distinct (case, requests, events)"
        .into();
    let n: u64 = args.extra_u64("cases").unwrap_or(args.pick(6, 120));
    let only: Option<u64> = args.replay.as_ref().map(|p| {
        let v: vcommon::Value = vcommon::serde_json::from_slice(&std::fs::read(p).unwrap()).unwrap();
        v["replay"]["case"].as_u64().unwrap()
    });
    let rt = tokio::runtime::Builder::new_multi_thread().worker_threads(2).enable_all().build().unwrap();
    for case in 0..n {
        if let Some(o) = only { if o != case { continue; } } else if !rep.within_budget() { rep.count("stopped_by_budget"); break; }
        run_case(rep, args, case, &rt);
    }
    std::mem::forget(rt);
}
