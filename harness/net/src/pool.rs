//! C12 (pool half) - connection pools: one entry per identity, quota for non-configured peers, no quota leak.
use std::{
    collections::{BTreeSet, HashSet},
    sync::Arc,
};

use rand::Rng;
use vcommon::{json, rng_for, Report};
use zksync_consensus_network::verif::PoolWatch;

pub fn run(args: &vcommon::Args, rep: &mut Report) {
    let ncases: u64 = args.pick(3000, 60000);
    let rt = tokio::runtime::Builder::new_current_thread().build().unwrap();
    for case in 0..ncases {
        if !rep.within_budget() { rep.count("stopped_by_budget"); break; }
        let mut rng = rng_for(args.seed, args.shard, 121, case);
        let nkeys = rng.gen_range(2..10u32);
        let allowed: HashSet<u32> = (0..nkeys).filter(|_| rng.gen_bool(0.5)).collect();
        let limit = rng.gen_range(0..4usize);
        let pool: PoolWatch<u32, u64> = PoolWatch::new(allowed.clone(), limit);
        // reference: set + quota counter
        let mut cur: BTreeSet<u32> = BTreeSet::new();
        let mut extra = 0usize;
        let mut hist = vec![];
        rt.block_on(async {
            for step in 0..rng.gen_range(5..80) {
                let k = rng.gen_range(0..nkeys);
                if rng.gen_bool(0.6) {
                    let got = pool.insert(k, step as u64).await.is_ok();
                    let want = if cur.contains(&k) { false } else if allowed.contains(&k) { true } else { extra < limit };
                    if want {
                        cur.insert(k);
                        if !allowed.contains(&k) { extra += 1; }
                    }
                    hist.push(format!("insert({k})->{got}"));
                    if got != want {
                        rep.violation("pool-insert-differs-from-reference||".to_string(), format!("insert({k}) returned {got}, reference {want}; allowed {allowed:?} limit {limit} history {hist:?}"), json!({"case": case}));
                        return;
                    }
                    rep.count(if got { "pool_inserts_accepted" } else { "pool_inserts_refused" });
                } else {
                    pool.remove(&k).await;
                    if cur.remove(&k) && !allowed.contains(&k) { extra -= 1; }
                    hist.push(format!("remove({k})"));
                }
                let now: BTreeSet<u32> = pool.current().into_iter().map(|x| x.0).collect();
                if now != cur {
                    rep.violation("pool-content-differs-from-reference||".to_string(), format!("pool {now:?} reference {cur:?} history {hist:?}"), json!({"case": case}));
                    return;
                }
                if now.iter().filter(|k| !allowed.contains(k)).count() > limit {
                    rep.violation("quota-exceeded||".to_string(), format!("{now:?} allowed {allowed:?} limit {limit}"), json!({"case": case}));
                }
            }
            // quota is not leaked: after removing everything exactly `limit` fresh non-configured identities fit
            for k in 0..nkeys { pool.remove(&k).await; }
            let mut fit = 0;
            for k in 1000..1000 + limit as u32 + 3 {
                if pool.insert(k, 0).await.is_ok() { fit += 1; }
            }
            rep.count("quota_leak_probes");
            if fit != limit {
                rep.violation("quota-leaked||".to_string(), format!("after all removes {fit} non-configured identities were admitted, limit {limit}; history {hist:?}"), json!({"case": case}));
            }
        });
        rep.evaluations += 1;
        rep.count("pool_sequences");
        rep.distinct(vcommon::hash_of(&hist));
    }
    // concurrent stress: 16 tasks, few keys, invariant probe after every operation
    let rounds = args.pick(3, 40);
    for round in 0..rounds {
        let rt = tokio::runtime::Builder::new_multi_thread().worker_threads(8).build().unwrap();
        let allowed: HashSet<u32> = [0, 1].into_iter().collect();
        let limit = 2usize;
        let pool: Arc<PoolWatch<u32, u64>> = Arc::new(PoolWatch::new(allowed.clone(), limit));
        let bad = Arc::new(std::sync::Mutex::new(Vec::<String>::new()));
        rt.block_on(async {
            let mut hs = vec![];
            for t in 0..16u64 {
                let (pool, bad, allowed) = (pool.clone(), bad.clone(), allowed.clone());
                hs.push(tokio::spawn(async move {
                    let mut rng = rng_for(t, round, 122, 0);
                    for i in 0..400 {
                        let k = rng.gen_range(0..6u32);
                        if rng.gen_bool(0.5) {
                            let _ = pool.insert(k, t * 1000 + i).await;
                        } else {
                            pool.remove(&k).await;
                        }
                        let now = pool.current();
                        let keys: Vec<u32> = now.iter().map(|x| x.0).collect();
                        let uniq: BTreeSet<u32> = keys.iter().copied().collect();
                        if uniq.len() != keys.len() {
                            bad.lock().unwrap().push(format!("duplicate identity in pool: {keys:?}"));
                        }
                        if keys.iter().filter(|k| !allowed.contains(k)).count() > limit {
                            bad.lock().unwrap().push(format!("quota exceeded: {keys:?}"));
                        }
                    }
                }));
            }
            for h in hs { let _ = h.await; }
            for k in 0..6u32 { pool.remove(&k).await; }
            let mut fit = 0;
            for k in 100..106u32 { if pool.insert(k, 0).await.is_ok() { fit += 1; } }
            if fit != limit {
                bad.lock().unwrap().push(format!("quota leaked under concurrency: {fit} admitted, limit {limit}"));
            }
        });
        rep.evaluations += 1;
        rep.count("pool_concurrent_rounds");
        for b in bad.lock().unwrap().iter().take(3) {
            rep.violation("pool-invariant-under-concurrency||".to_string(), b.clone(), json!({"round": round}));
        }
    }
}
