//! C16(a') - the generic prunable queue (`sync::prunable_mpsc`) with a predicate/selection function of
//! the same shape as the consensus inbound queue, on plain integers: runs natively, under Miri and
//! ThreadSanitizer (no FFI). The genuinely signed variant through bft::create_input_channel() lives
//! in the sim crate.
//! Oracles: sequential reference queue diff; concurrent senders: nothing invented / duplicated, at
//! most one pending message per (sender, kind), small histories checked for linearizability.
use std::sync::{
    atomic::{AtomicU64, Ordering},
    Arc, Mutex,
};

use rand::{rngs::StdRng, Rng};
use vcommon::{json, rng_for, Args, Report};
use zksync_concurrency::{
    ctx,
    sync::prunable_mpsc::{self, SelectionFunctionResult},
};

/// message: (unique id, sender, kind, view, valid signature?)
#[derive(Clone, Copy, Debug, PartialEq, Eq, Hash)]
pub struct M {
    pub id: u64,
    pub sender: u8,
    pub kind: u8,
    pub view: u64,
    pub valid: bool,
}

fn filter(m: &M) -> bool {
    m.valid
}

fn select(old: &M, new: &M) -> SelectionFunctionResult {
    if old.sender != new.sender || old.kind != new.kind {
        SelectionFunctionResult::Keep
    } else if old.view < new.view {
        SelectionFunctionResult::DiscardOld
    } else {
        SelectionFunctionResult::DiscardNew
    }
}

/// Reference queue written from the statement of C16: drop if invalid; if a pending message of the same sender
/// and kind exists keep the one with the higher view (the pending one on a tie); otherwise append; FIFO.
#[derive(Clone, Default, Debug, PartialEq, Eq, Hash)]
pub struct RefQueue(pub Vec<M>);

impl RefQueue {
    pub fn send(&mut self, m: M) {
        if !m.valid {
            return;
        }
        if let Some(i) = self.0.iter().position(|x| x.sender == m.sender && x.kind == m.kind) {
            if self.0[i].view < m.view {
                self.0.remove(i);
                self.0.push(m);
            }
            return;
        }
        self.0.push(m);
    }
    pub fn recv(&mut self) -> Option<M> {
        if self.0.is_empty() {
            None
        } else {
            Some(self.0.remove(0))
        }
    }
}

fn gen_msg(rng: &mut StdRng, id: u64) -> M {
    M { id, sender: rng.gen_range(0..3), kind: rng.gen_range(0..4), view: rng.gen_range(0..6), valid: rng.gen_bool(0.9) }
}

#[derive(Clone, Debug)]
enum HOp {
    Send(M),
    Recv(Option<M>),
}

/// exhaustive linearizability check of a small concurrent history against RefQueue
fn linearizable(ops: &[(u64, u64, HOp)]) -> bool {
    // ops: (call stamp, return stamp, op)
    fn rec(ops: &[(u64, u64, HOp)], done: u64, q: &RefQueue, memo: &mut std::collections::HashSet<(u64, RefQueue)>) -> bool {
        if done == (1u64 << ops.len()) - 1 {
            return true;
        }
        if !memo.insert((done, q.clone())) {
            return false;
        }
        // minimal return stamp among pending ops: an op can go next only if it was called before that
        let min_ret = ops.iter().enumerate().filter(|(i, _)| done >> i & 1 == 0).map(|(_, o)| o.1).min().unwrap();
        for (i, (call, _ret, op)) in ops.iter().enumerate() {
            if done >> i & 1 == 1 || *call > min_ret {
                continue;
            }
            let mut q2 = q.clone();
            let ok = match op {
                HOp::Send(m) => {
                    q2.send(*m);
                    true
                }
                HOp::Recv(got) => q2.recv() == *got && got.is_some(),
            };
            if ok && rec(ops, done | 1 << i, &q2, memo) {
                return true;
            }
        }
        false
    }
    rec(ops, 0, &RefQueue::default(), &mut Default::default())
}

pub fn run(args: &Args, rep: &mut Report) {
    rep.rule = "one evaluation = one send/recv history on the real prunable queue: sequential histories are diffed against the reference queue \
                after every operation; concurrent histories (2-4 sender threads + consumer) are checked for linearizability (exhaustive search, \
                <= 12 operations) and for the search-free invariants; distinct = distinct histories"
        .into();
    let small = args.extra.contains_key("small");
    let nseq: u64 = if small { 20 } else { args.pick(3000, 100000) };
    let rt = tokio::runtime::Builder::new_current_thread().enable_time().build().unwrap();
    // ---- sequential
    for case in 0..nseq {
        if !rep.within_budget() { rep.count("stopped_by_budget"); break; }
        let mut rng = rng_for(args.seed, args.shard, 16, case);
        let (tx, mut rx) = prunable_mpsc::channel(filter, select);
        let mut reference = RefQueue::default();
        let n = rng.gen_range(1..40);
        let mut hist = vec![];
        let mut ok = true;
        rt.block_on(async {
            let root = ctx::root();
            for id in 0..n {
                if rng.gen_bool(0.65) {
                    let m = gen_msg(&mut rng, id);
                    tx.send(m);
                    reference.send(m);
                    hist.push(format!("send{m:?}"));
                } else if !reference.0.is_empty() {
                    let got = rx.recv(&root).await.ok();
                    let want = reference.recv();
                    hist.push(format!("recv->{got:?}"));
                    if got != want {
                        ok = false;
                        rep.violation("differs-from-reference-queue||sequential".to_string(), format!("recv returned {got:?}, reference {want:?}; history {hist:?}"), json!({"case": case}));
                        break;
                    }
                    rep.count("sequential_recvs_checked");
                }
            }
            // drain and compare
            while ok && !reference.0.is_empty() {
                let got = rx.recv(&root).await.ok();
                let want = reference.recv();
                if got != want {
                    rep.violation("differs-from-reference-queue||sequential-drain".to_string(), format!("recv returned {got:?}, reference {want:?}; history {hist:?}"), json!({"case": case}));
                    break;
                }
            }
        });
        rep.evaluations += 1;
        rep.count("sequential_histories");
        rep.distinct(vcommon::hash_of(&hist));
        if rep.samples.len() < 2 && n < 10 {
            rep.sample(json!({"sequential_history": hist}));
        }
    }
    // ---- concurrent
    let nconc: u64 = if small { 6 } else { args.pick(400, 20000) };
    for case in 0..nconc {
        if !rep.within_budget() { rep.count("stopped_by_budget"); break; }
        let mut rng = rng_for(args.seed, args.shard, 161, case);
        let (tx, mut rx) = prunable_mpsc::channel(filter, select);
        let tx = Arc::new(tx);
        let stamp = Arc::new(AtomicU64::new(0));
        let hist: Arc<Mutex<Vec<(u64, u64, HOp)>>> = Arc::new(Mutex::new(vec![]));
        let nsenders = rng.gen_range(2..=4usize);
        let per = rng.gen_range(1..=3u64);
        let plan: Vec<Vec<M>> = (0..nsenders).map(|s| (0..per).map(|j| gen_msg(&mut rng, (s as u64) * 100 + j)).collect()).collect();
        let total_valid_distinct = plan.iter().flatten().filter(|m| m.valid).count();
        let nrecv = rng.gen_range(0..=total_valid_distinct.min(4));
        std::thread::scope(|sc| {
            for msgs in &plan {
                let (tx, stamp, hist) = (tx.clone(), stamp.clone(), hist.clone());
                sc.spawn(move || {
                    for m in msgs {
                        let c = stamp.fetch_add(1, Ordering::SeqCst);
                        tx.send(*m);
                        let r = stamp.fetch_add(1, Ordering::SeqCst);
                        hist.lock().unwrap().push((c, r, HOp::Send(*m)));
                        std::thread::yield_now();
                    }
                });
            }
            // consumer on this thread
            let rt2 = tokio::runtime::Builder::new_current_thread().enable_time().build().unwrap();
            rt2.block_on(async {
                let root = ctx::root();
                for _ in 0..nrecv {
                    let c = stamp.fetch_add(1, Ordering::SeqCst);
                    // bounded wait: if nothing valid is ever pending the recv would block forever
                    let got = tokio::time::timeout(std::time::Duration::from_millis(200), rx.recv(&root)).await.ok().and_then(|r| r.ok());
                    let r = stamp.fetch_add(1, Ordering::SeqCst);
                    if got.is_some() {
                        hist.lock().unwrap().push((c, r, HOp::Recv(got)));
                    }
                }
            });
        });
        // quiescence: drain what is left (sequentially, after all senders returned)
        let mut left = vec![];
        rt.block_on(async {
            let root = ctx::root();
            loop {
                match tokio::time::timeout(std::time::Duration::from_millis(0), rx.recv(&root)).await {
                    Ok(Ok(m)) => left.push(m),
                    _ => break,
                }
            }
        });
        let mut h = hist.lock().unwrap().clone();
        for m in &left {
            let c = stamp.fetch_add(1, Ordering::SeqCst);
            let r = stamp.fetch_add(1, Ordering::SeqCst);
            h.push((c, r, HOp::Recv(Some(*m))));
        }
        rep.evaluations += 1;
        rep.count("concurrent_histories");
        let replay = json!({"case": case, "history": format!("{h:?}")});
        // search-free invariants
        let sent: Vec<M> = plan.iter().flatten().copied().collect();
        let recvd: Vec<M> = h.iter().filter_map(|(_, _, o)| if let HOp::Recv(Some(m)) = o { Some(*m) } else { None }).collect();
        for m in &recvd {
            if !sent.contains(m) {
                rep.violation("delivered-message-never-sent||".to_string(), format!("{m:?}"), replay.clone());
            }
            if !m.valid {
                rep.violation("delivered-invalid-message||".to_string(), format!("{m:?}"), replay.clone());
            }
            if recvd.iter().filter(|x| x.id == m.id).count() > 1 {
                rep.violation("delivered-twice||".to_string(), format!("{m:?}"), replay.clone());
            }
        }
        let mut seen = std::collections::HashSet::new();
        for m in &left {
            if !seen.insert((m.sender, m.kind)) {
                rep.violation("two-pending-for-one-sender-and-kind||".to_string(), format!("left in the queue at quiescence: {left:?}"), replay.clone());
            }
        }
        // a valid message may only disappear if a message of the same sender and kind with an equal or higher view was sent
        for m in sent.iter().filter(|m| m.valid) {
            if !recvd.contains(m) && !sent.iter().any(|o| o.id != m.id && o.valid && o.sender == m.sender && o.kind == m.kind && o.view >= m.view) {
                rep.violation("message-lost-without-fresher-one||".to_string(), format!("{m:?} was never delivered although no equal-or-fresher message of its sender/kind exists"), replay.clone());
            }
        }
        if h.len() <= 12 {
            rep.count("linearizability_checks");
            if !linearizable(&h) {
                rep.violation("not-linearizable||".to_string(), format!("history {h:?}"), replay.clone());
            }
        }
        rep.distinct(vcommon::hash_of(&format!("{:?}", h.iter().map(|x| &x.2).collect::<Vec<_>>())));
        if rep.samples.len() < 4 && h.len() < 8 {
            rep.sample(json!({"concurrent_history(call,return,op)": format!("{h:?}")}));
        }
    }
}
