//! C15(a) - rate limiter (public API, manual clock, single-threaded deterministic runtime plus a
//! multi-threaded stress variant). Oracles: sliding-window bound over every pair of grants, arrival
//! order, cancelled waits consume nothing (differential: a run whose only prior activity are
//! cancelled waits must grant exactly like a fresh limiter), burst < k never grants, refresh 0
//! always grants.
use std::sync::{
    atomic::{AtomicU64, Ordering},
    Arc, Mutex,
};

use rand::{rngs::StdRng, Rng};
use vcommon::{json, rng_for, Args, Report};
use zksync_concurrency::{ctx, limiter, scope, time};

#[derive(Clone, Debug)]
enum Op {
    /// a caller arrives: acquire(k), hold the permit for `hold` ns (virtual), then drop it.
    /// If `cancel_after` is Some(d) its context is cancelled d ns after arrival.
    Acquire { k: usize, hold: i64, cancel_after: Option<i64> },
    /// advance the manual clock
    Advance(i64),
    /// let tasks run
    Settle,
}

#[derive(Clone, Debug, PartialEq)]
enum Ev {
    Arrive { id: usize, k: usize, t: i64 },
    Grant { id: usize, k: usize, t: i64 },
    Canceled { id: usize, t: i64 },
    Release { id: usize, t: i64 },
}

struct Run {
    evs: Vec<Ev>,
}

/// Executes a program on a fresh limiter (current-thread runtime, manual clock).
fn execute(burst: usize, refresh_ns: i64, ops: &[Op], final_drain_ns: i64) -> Run {
    let rt = tokio::runtime::Builder::new_current_thread().build().unwrap();
    let evs: Arc<Mutex<Vec<Ev>>> = Arc::new(Mutex::new(vec![]));
    rt.block_on(async {
        let clock = ctx::ManualClock::new();
        let root = ctx::test_root(&clock);
        let t0 = clock.now();
        let now = |c: &ctx::ManualClock| (c.now() - t0).whole_nanoseconds() as i64;
        let lim = limiter::Limiter::new(&root, limiter::Rate { burst, refresh: time::Duration::nanoseconds(refresh_ns) });
        let next_id = AtomicU64::new(0);
        let settle = || async move {
            for _ in 0..60 {
                tokio::task::yield_now().await;
            }
        };
        let (lim, evs, clock, next_id) = (&lim, &evs, &clock, &next_id);
        let _ = scope::run!(&root, |ctx, s| async move {
            for op in ops {
                match op {
                    Op::Acquire { k, hold, cancel_after } => {
                        let id = next_id.fetch_add(1, Ordering::SeqCst) as usize;
                        let (k, hold, cancel_after) = (*k, *hold, *cancel_after);
                        let evs = evs.clone();
                        let clock = clock.clone();
                        evs.lock().unwrap().push(Ev::Arrive { id, k, t: now(&clock) });
                        s.spawn_bg(async move {
                            let my = match cancel_after {
                                Some(d) => ctx.with_timeout(time::Duration::nanoseconds(d)),
                                None => ctx.with_timeout(time::Duration::seconds(1_000_000)),
                            };
                            match lim.acquire(&my, k).await {
                                Ok(permit) => {
                                    evs.lock().unwrap().push(Ev::Grant { id, k, t: now(&clock) });
                                    if hold > 0 {
                                        let _ = ctx.sleep(time::Duration::nanoseconds(hold)).await;
                                    }
                                    drop(permit);
                                    evs.lock().unwrap().push(Ev::Release { id, t: now(&clock) });
                                }
                                Err(_) => evs.lock().unwrap().push(Ev::Canceled { id, t: now(&clock) }),
                            }
                            Ok::<(), ()>(())
                        });
                        // the caller is polled once right away, so arrival order = order of these events
                        settle().await;
                    }
                    Op::Advance(d) => {
                        clock.advance(time::Duration::nanoseconds(*d));
                        settle().await;
                    }
                    Op::Settle => settle().await,
                }
            }
            // drain: let every remaining caller be served
            let step = refresh_ns.max(1);
            let mut t = 0;
            while t < final_drain_ns {
                clock.advance(time::Duration::nanoseconds(step));
                settle().await;
                t += step;
            }
            Ok::<(), ()>(())
        })
        .await;
    });
    let evs = evs.lock().unwrap().clone();
    Run { evs }
}

fn gen_ops(rng: &mut StdRng, burst: usize, refresh_ns: i64, n: usize, with_cancels: bool) -> Vec<Op> {
    let mut ops = vec![];
    for _ in 0..n {
        match rng.gen_range(0..10) {
            0..=5 => {
                let k = match rng.gen_range(0..6) {
                    0 => 0,
                    1 => burst,
                    2 => burst + 1,
                    _ => rng.gen_range(0..=burst.max(1)),
                };
                let hold = match rng.gen_range(0..3) {
                    0 => 0,
                    1 => rng.gen_range(0..refresh_ns.max(1) * 3),
                    _ => refresh_ns,
                };
                let cancel_after = if with_cancels && rng.gen_bool(0.3) { Some(rng.gen_range(0..refresh_ns.max(1) * 4)) } else { None };
                ops.push(Op::Acquire { k, hold, cancel_after });
            }
            6 | 7 => ops.push(Op::Advance(match rng.gen_range(0..5) {
                0 => 1,
                1 => (refresh_ns - 1).max(1),
                2 => refresh_ns.max(1),
                3 => refresh_ns.max(1) * rng.gen_range(2..20),
                _ => rng.gen_range(1..refresh_ns.max(2) * 3),
            })),
            _ => ops.push(Op::Settle),
        }
    }
    ops
}

fn check_window(rep: &mut Report, burst: usize, refresh_ns: i64, evs: &[Ev], replay: &vcommon::Value) {
    let grants: Vec<(i64, usize, usize)> = evs.iter().filter_map(|e| if let Ev::Grant { id, k, t } = e { Some((*t, *k, *id)) } else { None }).collect();
    rep.add("grants_observed", grants.len() as u64);
    for (_, k, id) in &grants {
        if *k > burst {
            rep.violation("granted-more-than-burst||".to_string(), format!("caller {id} was granted {k} permits with burst {burst}"), replay.clone());
        }
    }
    if refresh_ns <= 0 {
        return;
    }
    for i in 0..grants.len() {
        let mut sum: u128 = 0;
        for j in i..grants.len() {
            sum += grants[j].1 as u128;
            let t = (grants[j].0 - grants[i].0) as u128;
            let bound = burst as u128 + t / refresh_ns as u128 + 1;
            rep.count("windows_checked");
            if sum > bound {
                rep.violation(
                    "window-bound-exceeded||".to_string(),
                    format!("{sum} permits granted within {t} ns (grants {i}..={j}), bound burst {burst} + T/r + 1 = {bound} (refresh {refresh_ns} ns)"),
                    replay.clone(),
                );
                return;
            }
        }
    }
}

fn check_fifo(rep: &mut Report, burst: usize, evs: &[Ev], replay: &vcommon::Value) {
    // among callers that were eventually granted and request 1..=burst permits: grant order = arrival order,
    // unless an earlier arrival was cancelled (it leaves the queue) - cancelled callers are simply skipped
    let arrivals: Vec<usize> = evs.iter().filter_map(|e| if let Ev::Arrive { id, k, .. } = e { if *k <= burst { Some(*id) } else { None } } else { None }).collect();
    let granted: Vec<usize> = evs.iter().filter_map(|e| if let Ev::Grant { id, .. } = e { Some(*id) } else { None }).collect();
    let expect: Vec<usize> = arrivals.into_iter().filter(|i| granted.contains(i)).collect();
    rep.count("fifo_sequences_checked");
    if granted != expect {
        rep.violation("not-served-in-arrival-order||".to_string(), format!("grant order {granted:?}, arrival order of the granted callers {expect:?}"), replay.clone());
    }
}

pub fn run(args: &Args, rep: &mut Report) {
    rep.rule = "one evaluation = one operation sequence (acquire(k) with hold time and optional cancellation, clock advances) on a fresh real Limiter \
                with a manual clock; all O(g^2) windows between grants are checked against burst + T/r + 1, grants against arrival order; the \
                differential part runs the same probe after a phase of only-cancelled waits and on a fresh limiter; distinct = distinct (rate, ops)"
        .into();
    let small = args.extra.contains_key("small");
    let n: u64 = args.extra_u64("cases").unwrap_or(if small { 4 } else { args.pick(400, 20000) });
    let only: Option<u64> = args.replay.as_ref().map(|p| {
        let v: vcommon::Value = vcommon::serde_json::from_slice(&std::fs::read(p).unwrap()).unwrap();
        v["replay"]["case"].as_u64().unwrap()
    });
    for case in 0..n {
        if let Some(o) = only { if o != case { continue; } } else if !rep.within_budget() { rep.count("stopped_by_budget"); break; }
        let mut rng = rng_for(args.seed, args.shard, 15, case);
        let burst = [1usize, 2, 3, 5, 10][rng.gen_range(0..5)];
        let refresh_ns: i64 = [0i64, 1, 7, 1000, 1_000_000][rng.gen_range(0..5)];
        let nops = if small { 8 } else { rng.gen_range(5..40) };
        let replay = json!({"case": case});
        // (A) general sequences with cancels
        let ops = gen_ops(&mut rng, burst, refresh_ns, nops, true);
        let drain = refresh_ns.max(1) * (burst as i64 + 3) * 45;
        let run = execute(burst, refresh_ns, &ops, drain);
        rep.evaluations += 1;
        rep.count("sequences");
        rep.distinct(vcommon::hash_of(&(burst, refresh_ns, format!("{ops:?}"))));
        check_window(rep, burst, refresh_ns, &run.evs, &replay);
        if refresh_ns > 0 {
            check_fifo(rep, burst, &run.evs, &replay);
        }
        let ncancel = run.evs.iter().filter(|e| matches!(e, Ev::Canceled { .. })).count();
        rep.add("cancelled_waits_observed", ncancel as u64);
        // never granted: k > burst; always granted at arrival time: refresh 0
        for e in &run.evs {
            if let Ev::Arrive { id, k, t } = e {
                let grant = run.evs.iter().find_map(|g| if let Ev::Grant { id: i2, t: t2, .. } = g { if i2 == id { Some(*t2) } else { None } } else { None });
                if *k > burst && grant.is_some() {
                    rep.violation("granted-more-than-burst||".to_string(), format!("acquire({k}) with burst {burst} was granted"), replay.clone());
                }
                if *k > burst { rep.count("oversized_requests_checked"); }
                if refresh_ns == 0 && *k <= burst {
                    rep.count("infinite_rate_requests_checked");
                    if grant != Some(*t) {
                        rep.violation("infinite-rate-not-immediate||".to_string(), format!("refresh 0: acquire({k}) arriving at {t} was granted at {grant:?}"), replay.clone());
                    }
                }
            }
        }
        // every non-cancelled, satisfiable caller is eventually served (the drain is long enough for all of them)
        if refresh_ns > 0 {
            for e in &run.evs {
                if let Ev::Arrive { id, k, .. } = e {
                    let done = run.evs.iter().any(|g| matches!(g, Ev::Grant { id: i2, .. } | Ev::Canceled { id: i2, .. } if i2 == id));
                    if *k <= burst && !done {
                        rep.violation("caller-starved||".to_string(), format!("caller {id} (acquire({k}), burst {burst}, refresh {refresh_ns}) was neither granted nor cancelled after a drain of {drain} ns"), replay.clone());
                    }
                }
            }
        }
        // (B) cancelled waits consume nothing: phase 1 = only waits that all get cancelled, phase 2 = probe; vs fresh limiter + same probe
        if refresh_ns > 0 {
            let mut phase1 = vec![];
            // first take everything so that later callers really have to wait, and hold it during phase 1
            let hold_all = refresh_ns * 50;
            phase1.push(Op::Acquire { k: burst, hold: hold_all, cancel_after: None });
            let mut span = 0i64;
            for _ in 0..rng.gen_range(1..6) {
                let d = rng.gen_range(0..refresh_ns * 3);
                phase1.push(Op::Acquire { k: rng.gen_range(1..=burst), hold: 0, cancel_after: Some(d) });
                let adv = rng.gen_range(0..refresh_ns * 2);
                phase1.push(Op::Advance(adv));
                span += adv;
            }
            // cancel everything for sure and release the holder
            phase1.push(Op::Advance(refresh_ns * 60));
            span += refresh_ns * 60;
            let probe: Vec<Op> = (0..burst + 4).flat_map(|_| vec![Op::Acquire { k: 1, hold: 0, cancel_after: None }, Op::Advance(refresh_ns / 3 + 1)]).collect();
            let mut with_cancels = phase1.clone();
            with_cancels.extend(probe.clone());
            // reference: the same holder, no cancelled waiters, same elapsed time, same probe
            let mut without = vec![Op::Acquire { k: burst, hold: hold_all, cancel_after: None }, Op::Advance(span)];
            without.extend(probe.clone());
            let a = execute(burst, refresh_ns, &with_cancels, drain);
            let b = execute(burst, refresh_ns, &without, drain);
            rep.evaluations += 1;
            rep.count("differential_cancel_cases");
            // compare the grant times of the probe callers (the last burst+4 arrivals)
            let probe_grants = |r: &Run| -> Vec<i64> {
                let ids: Vec<usize> = r.evs.iter().filter_map(|e| if let Ev::Arrive { id, .. } = e { Some(*id) } else { None }).collect();
                let probe_ids = &ids[ids.len() - (burst + 4)..];
                probe_ids.iter().map(|i| r.evs.iter().find_map(|e| if let Ev::Grant { id, t, .. } = e { if id == i { Some(*t) } else { None } } else { None }).unwrap_or(-1)).collect()
            };
            let (ga, gb) = (probe_grants(&a), probe_grants(&b));
            let really_cancelled = a.evs.iter().filter(|e| matches!(e, Ev::Canceled { .. })).count();
            rep.add("cancelled_waits_in_differential", really_cancelled as u64);
            if ga != gb {
                rep.violation("cancelled-wait-consumed-permits||".to_string(), format!("after {really_cancelled} cancelled waits the probe is granted at {ga:?}, a limiter that never saw them grants at {gb:?} (burst {burst}, refresh {refresh_ns})"), replay.clone());
            }
        }
        if rep.samples.len() < rep.max_samples && nops < 12 {
            rep.sample(json!({"burst": burst, "refresh_ns": refresh_ns, "ops": format!("{ops:?}"), "events": format!("{:?}", run.evs)}));
        }
    }
    // (C) multi-threaded stress: many tasks hammer one limiter on a multi-thread runtime with the real clock;
    // only the window bound (measured with the limiter's own clock) is asserted.
    if !small {
        let rounds = args.pick(2, 10);
        for round in 0..rounds {
            let rt = tokio::runtime::Builder::new_multi_thread().worker_threads(4).enable_time().build().unwrap();
            let burst = 3usize;
            let refresh = time::Duration::microseconds(200);
            let grants: Arc<Mutex<Vec<(i64, usize, usize)>>> = Arc::new(Mutex::new(vec![]));
            rt.block_on(async {
                let root = ctx::root();
                let lim = limiter::Limiter::new(&root, limiter::Rate { burst, refresh });
                let t0 = root.now();
                let (lim, grants) = (&lim, &grants);
                let _ = scope::run!(&root, |ctx, s| async move {
                    for id in 0..8usize {
                        let grants = grants.clone();
                        s.spawn(async move {
                            for j in 0..40 {
                                let k = 1 + (id + j) % burst;
                                let c = ctx.with_timeout(time::Duration::milliseconds(if j % 7 == 3 { 0 } else { 10_000 }));
                                {
                                let got = lim.acquire(&c, k).await;
                                if let Ok(p) = got {
                                    let t = (ctx.now() - t0).whole_nanoseconds() as i64;
                                    grants.lock().unwrap().push((t, k, id));
                                    if j % 3 == 0 {
                                        tokio::task::yield_now().await;
                                    }
                                    drop(p);
                                }
                                }
                                drop(c);
                            }
                            Ok::<(), ()>(())
                        });
                    }
                    Ok(())
                })
                .await;
            });
            let mut g = grants.lock().unwrap().clone();
            g.sort();
            rep.evaluations += 1;
            rep.count("multi_thread_stress_rounds");
            // timestamps are taken after the grant, i.e. they can only be later than the true grant instants; a window
            // measured between two recorded stamps can therefore be shorter than the true one by the stamping delay of its
            // first grant. The bound is checked with one extra refresh period of slack per window for that reason.
            let r = refresh.whole_nanoseconds() as u128;
            let evs: Vec<Ev> = g.iter().map(|(t, k, id)| Ev::Grant { id: *id, k: *k, t: *t }).collect();
            let _ = evs;
            for i in 0..g.len() {
                let mut sum = 0u128;
                for j in i..g.len() {
                    sum += g[j].1 as u128;
                    let t = (g[j].0 - g[i].0) as u128;
                    // generous: stamping delay up to 5 ms
                    let bound = burst as u128 + (t + 5_000_000) / r + 1;
                    if sum > bound {
                        rep.violation("window-bound-exceeded||multi-thread".to_string(), format!("round {round}: {sum} permits within {t} ns"), json!({"round": round}));
                        break;
                    }
                }
            }
            rep.add("grants_observed", g.len() as u64);
        }
    }
}
