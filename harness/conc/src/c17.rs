//! C17 - task scopes. Random scope programs (task trees: main/background x async/blocking, nested
//! scopes, tasks spawning tasks, yields, waits for cancellation, Ok / Err / panic outcomes, caller
//! cancellation and deadlines) are executed on the real `scope::run!`; an event log with one atomic
//! sequence counter is checked afterwards: join, result, first-failure, cancellation.
//! Every task writes into cells borrowed from the caller's frame as its last action, so a scope that
//! returns early is a use-after-free for Miri / ASan.
use std::sync::{
    atomic::{AtomicU64, Ordering},
    Arc, Mutex,
};

use rand::{rngs::StdRng, Rng};
use vcommon::{json, rng_for, Args, Report, Value};
use zksync_concurrency::{ctx, scope, time};

#[derive(Clone, Debug, PartialEq)]
enum Outcome {
    Ok,
    Err,
    Panic,
}

#[derive(Clone, Debug)]
struct TaskSpec {
    id: usize,
    main: bool,
    blocking: bool,
    /// yields before doing anything
    pre_yields: u32,
    children: Vec<TaskSpec>,
    /// nested scope run by this task before the final part: `scope::run!` in an async task, `scope::run_blocking!` (with a
    /// blocking root task) in a blocking one
    nested: Option<Box<ScopeSpec>>,
    /// async tasks only: after spawning its children the task joins (`JoinHandle::join`) the child with this index
    join_child: Option<usize>,
    /// wait for the scope context to be cancelled before finishing
    wait_cancel: bool,
    /// wait inside a child context with a (virtual) timeout
    wait_in_timeout_child: bool,
    post_yields: u32,
    outcome: Outcome,
}

#[derive(Clone, Debug)]
struct ScopeSpec {
    sid: usize,
    root: TaskSpec,
}

#[derive(Clone, Debug)]
struct Program {
    scope: ScopeSpec,
    ntasks: usize,
    /// the caller cancels its context after this many yields
    caller_cancel_after: Option<u32>,
    /// the caller's context has a deadline (virtual ms)
    caller_deadline_ms: Option<u64>,
}

fn gen_task(rng: &mut StdRng, next: &mut usize, nscope: &mut usize, depth: u32, budget: &mut i32, root: bool, allow_blocking: bool) -> TaskSpec {
    let id = *next;
    *next += 1;
    *budget -= 1;
    let blocking = !root && allow_blocking && rng.gen_bool(0.2);
    let mut children = vec![];
    let nchild = if depth == 0 || *budget <= 0 { 0 } else { rng.gen_range(0..=if root { 4 } else { 2 }) };
    for _ in 0..nchild {
        if *budget <= 0 {
            break;
        }
        children.push(gen_task(rng, next, nscope, depth - 1, budget, false, allow_blocking));
    }
    let nested = if depth > 0 && *budget > 1 && rng.gen_bool(0.25) {
        let sid = *nscope;
        *nscope += 1;
        Some(Box::new(ScopeSpec { sid, root: gen_task(rng, next, nscope, depth - 1, budget, true, allow_blocking) }))
    } else {
        None
    };
    let outcome = match rng.gen_range(0..10) {
        0 | 1 => Outcome::Err,
        2 => Outcome::Panic,
        _ => Outcome::Ok,
    };
    let wait_cancel = !root && rng.gen_bool(0.35);
    // a child that certainly finishes on its own (or fails, which cancels the scope): joining it always terminates; joining a
    // task that panics is documented to panic in the joiner, which would make the joiner deviate from its planned outcome
    let joinable: Vec<usize> = children.iter().enumerate().filter(|(_, c)| !c.blocking && !c.wait_cancel && c.nested.is_none() && c.outcome != Outcome::Panic).map(|(i, _)| i).collect();
    let join_child = if !blocking && !joinable.is_empty() && rng.gen_bool(0.4) { Some(joinable[rng.gen_range(0..joinable.len())]) } else { None };
    TaskSpec {
        id,
        main: rng.gen_bool(0.6),
        blocking,
        pre_yields: rng.gen_range(0..4),
        children,
        nested,
        join_child,
        wait_cancel,
        wait_in_timeout_child: wait_cancel && !blocking && rng.gen_bool(0.3),
        post_yields: rng.gen_range(0..3),
        outcome,
    }
}

fn gen_program(rng: &mut StdRng, max_tasks: i32, allow_blocking: bool, allow_panic: bool) -> Program {
    let mut next = 0;
    let mut nscope = 1;
    let mut budget = max_tasks;
    let mut root = gen_task(rng, &mut next, &mut nscope, 3, &mut budget, true, allow_blocking);
    fn strip(t: &mut TaskSpec) {
        if t.outcome == Outcome::Panic {
            t.outcome = Outcome::Err;
        }
        for c in &mut t.children {
            strip(c);
        }
        if let Some(n) = &mut t.nested {
            strip(&mut n.root);
        }
    }
    if !allow_panic {
        strip(&mut root);
    }
    // a panic inside a nested scope is re-raised inside the task that runs it (plain composition); the oracle
    // reasons about planned outcomes per task, so nested scopes fail with errors only
    fn strip_nested(t: &mut TaskSpec) {
        for c in &mut t.children {
            strip_nested(c);
        }
        if let Some(n) = &mut t.nested {
            strip(&mut n.root);
        }
    }
    strip_nested(&mut root);
    // a program in which nobody ever fails / cancels and somebody waits for cancellation would be fine
    // (all main tasks completing cancels the scope) - unless a *main* task waits: then the only triggers
    // are failures or the caller. Make sure some trigger exists in that case.
    let mut caller_cancel_after = if rng.gen_bool(0.3) { Some(rng.gen_range(0..12)) } else { None };
    let caller_deadline_ms = if caller_cancel_after.is_none() && rng.gen_bool(0.2) { Some(rng.gen_range(1..50)) } else { None };
    // Well-formedness: a main task that waits for cancellation keeps its scope alive, so some trigger must be certain:
    // a task of the same or an enclosing scope that fails unconditionally, or the caller. Otherwise the program would
    // legitimately never return.
    fn members<'a>(t: &'a TaskSpec, out: &mut Vec<&'a TaskSpec>) {
        out.push(t);
        for c in &t.children {
            members(c, out);
        }
    }
    fn well_formed(sc: &ScopeSpec, outer_trigger: bool) -> bool {
        let mut m = vec![];
        members(&sc.root, &mut m);
        // fails without waiting for anything (no cancellation wait, no nested scope to finish first)
        let sure_failure = m.iter().any(|t| t.outcome != Outcome::Ok && !t.wait_cancel && t.nested.is_none());
        let main_waiter = m.iter().any(|t| t.wait_cancel && t.main);
        if main_waiter && !sure_failure && !outer_trigger {
            return false;
        }
        m.iter().all(|t| t.nested.as_ref().map_or(true, |n| well_formed(n, outer_trigger || sure_failure)))
    }
    if caller_cancel_after.is_none() && caller_deadline_ms.is_none() && !well_formed(&ScopeSpec { sid: 0, root: root.clone() }, false) {
        caller_cancel_after = Some(rng.gen_range(0..12));
    }
    Program { scope: ScopeSpec { sid: 0, root }, ntasks: next, caller_cancel_after, caller_deadline_ms }
}

// -------------------------------------------------------------------------------------------------
// event log

#[derive(Clone, Debug, PartialEq)]
enum Ev {
    /// (joiner, joined child, value)
    JoinOk(usize, usize, u64),
    /// (joiner, joined child): `join` returned Canceled
    JoinCanceled(usize, usize),
    Start(usize),
    ObservedCancel(usize),
    End(usize, Outcome),
    ScopeEnter(usize),
    ScopeReturn(usize, String),
    CallerCancel,
}

struct Log {
    seq: AtomicU64,
    evs: Mutex<Vec<(u64, Ev)>>,
}

impl Log {
    fn push(&self, e: Ev) {
        // sequence number and append under one lock: the log order is a total order of the events
        let mut g = self.evs.lock().unwrap_or_else(|e| e.into_inner());
        let s = self.seq.fetch_add(1, Ordering::SeqCst);
        g.push((s, e));
    }
}

struct Env<'a> {
    log: &'a Log,
    /// borrowed from the caller's frame; written by every task as its last action
    cells: &'a [AtomicU64],
}

type R = Result<u64, u64>;

async fn yields(n: u32) {
    for _ in 0..n {
        tokio::task::yield_now().await;
    }
}

fn finish(env: &Env<'_>, t: &TaskSpec) -> R {
    env.log.push(Ev::End(t.id, t.outcome.clone()));
    env.cells[t.id].fetch_add(1, Ordering::SeqCst);
    match t.outcome {
        Outcome::Ok => Ok(t.id as u64),
        Outcome::Err => Err(t.id as u64),
        Outcome::Panic => panic!("planned panic of task {}", t.id),
    }
}

fn spawn_children<'env>(env: &'env Env<'env>, ctx: &'env ctx::Ctx, s: &'env scope::Scope<'env, u64>, t: &'env TaskSpec) -> Option<scope::JoinHandle<'env, u64>> {
    let mut wanted = None;
    for (i, c) in t.children.iter().enumerate() {
        let h = match (c.main, c.blocking) {
            (true, false) => s.spawn(run_async(env, ctx, s, c)),
            (false, false) => s.spawn_bg(run_async(env, ctx, s, c)),
            (true, true) => s.spawn_blocking(move || run_blocking(env, ctx, s, c)),
            (false, true) => s.spawn_bg_blocking(move || run_blocking(env, ctx, s, c)),
        };
        if t.join_child == Some(i) {
            wanted = Some(h);
        }
    }
    wanted
}

fn run_blocking<'env>(env: &'env Env<'env>, ctx: &'env ctx::Ctx, s: &'env scope::Scope<'env, u64>, t: &'env TaskSpec) -> R {
    env.log.push(Ev::Start(t.id));
    for _ in 0..t.pre_yields {
        std::thread::yield_now();
    }
    let _ = spawn_children(env, ctx, s, t);
    if let Some(n) = &t.nested {
        // a blocking task runs its nested scope through `scope::run_blocking!` with a blocking root task
        env.log.push(Ev::ScopeEnter(n.sid));
        let res: R = scope::run_blocking!(ctx, |ctx, s| run_blocking(env, ctx, s, &n.root));
        env.log.push(Ev::ScopeReturn(n.sid, format!("{res:?}")));
    }
    if t.wait_cancel {
        ctx.canceled().block();
        env.log.push(Ev::ObservedCancel(t.id));
    }
    finish(env, t)
}

fn run_async<'env>(
    env: &'env Env<'env>,
    ctx: &'env ctx::Ctx,
    s: &'env scope::Scope<'env, u64>,
    t: &'env TaskSpec,
) -> std::pin::Pin<Box<dyn 'env + Send + std::future::Future<Output = R>>> {
    Box::pin(async move {
        env.log.push(Ev::Start(t.id));
        yields(t.pre_yields).await;
        let handle = spawn_children(env, ctx, s, t);
        if let (Some(h), Some(i)) = (handle, t.join_child) {
            let c = t.children[i].id;
            match h.join(ctx).await {
                Ok(v) => env.log.push(Ev::JoinOk(t.id, c, v)),
                Err(ctx::Canceled) => env.log.push(Ev::JoinCanceled(t.id, c)),
            }
        }
        if let Some(n) = &t.nested {
            // a nested scope failing does not by itself fail this task: its result is only logged
            let _ = run_scope(env, ctx, n).await;
        }
        if t.wait_cancel {
            if t.wait_in_timeout_child {
                // a descendant context: cancellation of the scope must reach it
                // far beyond the 1 h virtual-time hang guard: only the scope's cancellation can release this wait
                let child = ctx.with_timeout(time::Duration::seconds(100_000_000));
                child.canceled().await;
            } else {
                ctx.canceled().await;
            }
            env.log.push(Ev::ObservedCancel(t.id));
        }
        yields(t.post_yields).await;
        finish(env, t)
    })
}

async fn run_scope<'env>(env: &'env Env<'env>, ctx: &'env ctx::Ctx, sc: &'env ScopeSpec) -> R {
    env.log.push(Ev::ScopeEnter(sc.sid));
    let res: R = scope::run!(ctx, |ctx, s| run_async(env, ctx, s, &sc.root)).await;
    env.log.push(Ev::ScopeReturn(sc.sid, format!("{res:?}")));
    res
}

// -------------------------------------------------------------------------------------------------
// oracle

fn tasks_of<'a>(sc: &'a ScopeSpec, out: &mut Vec<(&'a TaskSpec, Vec<usize>)>, path: Vec<usize>) {
    // (task, chain of enclosing scope ids, innermost last)
    fn walk<'a>(t: &'a TaskSpec, path: &Vec<usize>, out: &mut Vec<(&'a TaskSpec, Vec<usize>)>) {
        out.push((t, path.clone()));
        for c in &t.children {
            walk(c, path, out);
        }
        if let Some(n) = &t.nested {
            let mut p = path.clone();
            p.push(n.sid);
            walk(&n.root, &p, out);
        }
    }
    let mut p = path;
    p.push(sc.sid);
    walk(&sc.root, &p, out);
}

struct Verdict {
    violations: Vec<(String, String)>,
}

fn check(p: &Program, evs: &[(u64, Ev)], top: &Result<R, String>, hung: bool) -> Verdict {
    let mut v = Verdict { violations: vec![] };
    let mut all = vec![];
    tasks_of(&p.scope, &mut all, vec![]);
    let pos = |e: &Ev| evs.iter().position(|(_, x)| x == e);
    let started: Vec<usize> = evs.iter().filter_map(|(_, e)| if let Ev::Start(i) = e { Some(*i) } else { None }).collect();
    // (1) join: every started task of a scope (transitively) ended before that scope returned
    for (t, path) in &all {
        if !started.contains(&t.id) {
            continue;
        }
        let end = evs.iter().position(|(_, e)| matches!(e, Ev::End(i, _) if *i == t.id));
        for sid in path {
            let ret = evs.iter().position(|(_, e)| matches!(e, Ev::ScopeReturn(s, _) if s == sid));
            if let Some(r) = ret {
                match end {
                    Some(e) if e < r => {}
                    _ => v.violations.push(("scope-returned-before-task-finished".into(), format!("scope {sid} returned although task {} (started) had not finished", t.id))),
                }
            }
        }
    }
    if hung {
        // which cancellation was lost?
        let trigger = evs.iter().any(|(_, e)| matches!(e, Ev::End(_, Outcome::Err) | Ev::End(_, Outcome::Panic) | Ev::CallerCancel));
        v.violations.push(("scope-never-returned".into(), format!("all tasks idle in virtual time and the outermost scope has not returned (a failure/cancel trigger was logged: {trigger})")));
        return v;
    }
    // (2) result of the outermost scope
    let ended = |o: Outcome| -> Vec<usize> { evs.iter().filter_map(|(_, e)| if let Ev::End(i, oo) = e { if *oo == o { Some(*i) } else { None } } else { None }).collect() };
    // only tasks whose innermost scope is the outermost one report to it (nested scope results are swallowed by design of the program)
    let direct: Vec<usize> = all.iter().filter(|(_, path)| path.len() == 1).map(|(t, _)| t.id).collect();
    let panicked: Vec<usize> = ended(Outcome::Panic).into_iter().filter(|i| direct.contains(i)).collect();
    let failed: Vec<usize> = ended(Outcome::Err).into_iter().filter(|i| direct.contains(i)).collect();
    match top {
        Err(msg) => {
            if panicked.is_empty() {
                v.violations.push(("panic-without-panicking-task".into(), format!("the scope panicked ({msg}) although no task of it panicked")));
            }
        }
        Ok(res) => {
            if !panicked.is_empty() {
                v.violations.push(("panic-swallowed".into(), format!("task(s) {panicked:?} panicked but the scope returned {res:?}")));
            } else if failed.is_empty() {
                if *res != Ok(p.scope.root.id as u64) {
                    v.violations.push(("wrong-success-value".into(), format!("no task failed but the scope returned {res:?}")));
                }
            } else {
                match res {
                    Ok(_) => v.violations.push(("error-swallowed".into(), format!("task(s) {failed:?} returned an error but the scope returned {res:?}"))),
                    Err(e) => {
                        let w = *e as usize;
                        if !failed.contains(&w) {
                            v.violations.push(("error-not-from-a-task".into(), format!("scope returned Err({e}) which no task of it returned (failed: {failed:?})")));
                        } else if p.caller_cancel_after.is_none() && p.caller_deadline_ms.is_none() {
                            // first-failure rule: a *main* task of the outermost scope that waits for cancellation before failing can only
                            // have been released by an earlier failure (all-main-done cannot happen while it runs), so it cannot be the winner
                            // unless no other direct task failed or panicked before it observed cancellation.
                            let wt = all.iter().find(|(t, _)| t.id == w).unwrap().0;
                            let is_root_level_main = wt.main && p.scope.root.children.iter().any(|c| c.id == w);
                            if is_root_level_main && wt.wait_cancel {
                                let obs = pos(&Ev::ObservedCancel(w));
                                let earlier_failure = evs.iter().enumerate().any(|(k, (_, e))| matches!(e, Ev::End(i, Outcome::Err) if *i != w && direct.contains(i)) && Some(k) < obs);
                                if earlier_failure {
                                    v.violations.push(("not-first-failure".into(), format!("scope returned the error of task {w}, which only failed after being cancelled by an earlier failure")));
                                }
                            }
                        }
                    }
                }
            }
        }
    }
    // (2b) result of every nested scope that returned (their tasks never panic by construction): the root's value if no task of
    //      it returned an error, otherwise the error of one of its tasks
    for (k, (_, e)) in evs.iter().enumerate() {
        let Ev::ScopeReturn(sid, res) = e else { continue };
        if *sid == p.scope.sid {
            continue;
        }
        let members: Vec<&TaskSpec> = all.iter().filter(|(_, pp)| pp.last() == Some(sid)).map(|(t, _)| *t).collect();
        if members.is_empty() {
            continue;
        }
        let failed: Vec<usize> = members.iter().filter(|m| evs[..k].iter().any(|(_, e)| matches!(e, Ev::End(i, Outcome::Err) if *i == m.id))).map(|m| m.id).collect();
        let ok = if failed.is_empty() { *res == format!("{:?}", R::Ok(members[0].id as u64)) } else { failed.iter().any(|f| *res == format!("{:?}", R::Err(*f as u64))) };
        if !ok {
            v.violations.push(("nested-scope-wrong-result".into(), format!("nested scope {sid} returned {res} although its tasks that returned an error before that were {failed:?} (root task {})", members[0].id)));
        }
    }
    // (2c) JoinHandle::join: a value is returned only for a task that finished successfully, and it is that task's value
    for (k, (_, e)) in evs.iter().enumerate() {
        let Ev::JoinOk(j, c, val) = e else { continue };
        let ended_ok = evs[..k].iter().any(|(_, e)| matches!(e, Ev::End(i, Outcome::Ok) if i == c));
        if !ended_ok || *val != *c as u64 {
            v.violations.push(("join-returned-without-successful-task".into(), format!("task {j} joined task {c} and got Ok({val}) although task {c} had not finished successfully before")));
        }
    }
    // (3) cancellation is never observed without a trigger: some task of an enclosing scope failed / all its main
    //     tasks ended / the caller cancelled, before the observation (a join that returns Canceled is such an observation)
    for (t, path) in &all {
        let o1 = pos(&Ev::ObservedCancel(t.id));
        let o2 = evs.iter().position(|(_, e)| matches!(e, Ev::JoinCanceled(j, _) if *j == t.id));
        let Some(o) = [o1, o2].into_iter().flatten().min() else { continue };
        let mut justified = false;
        if evs[..o].iter().any(|(_, e)| *e == Ev::CallerCancel) || p.caller_deadline_ms.is_some() {
            justified = true;
        }
        for sid in path {
            let members: Vec<&TaskSpec> = all.iter().filter(|(_, pp)| pp.last() == Some(sid)).map(|(t, _)| *t).collect();
            if members.iter().any(|m| evs[..o].iter().any(|(_, e)| matches!(e, Ev::End(i, oo) if *i == m.id && *oo != Outcome::Ok))) {
                justified = true;
            }
            // all main tasks of the scope ended: sound over-approximation - at some moment before the observation no
            // main-flagged task of the scope that had started was still running
            let root_id = members[0].id;
            let is_main = |i: usize| members.iter().any(|m| m.id == i && (m.main || m.id == root_id));
            let mut alive: Vec<usize> = vec![];
            let mut root_started = false;
            for (_, e) in &evs[..o] {
                match e {
                    Ev::Start(i) if is_main(*i) => {
                        alive.push(*i);
                        if *i == root_id {
                            root_started = true;
                        }
                    }
                    Ev::End(i, _) => alive.retain(|x| x != i),
                    _ => {}
                }
                if root_started && alive.is_empty() {
                    justified = true;
                }
            }
        }
        if !justified {
            v.violations.push(("cancelled-without-cause".into(), format!("task {} observed cancellation although no task of its scopes had failed, main tasks were still running and the caller had not cancelled", t.id)));
        }
    }
    v
}

// -------------------------------------------------------------------------------------------------

struct Exec {
    evs: Vec<(u64, Ev)>,
    top: Result<R, String>,
    hung: bool,
    cells_ok: bool,
    /// the hang verdict was taken in virtual time (deterministic) rather than by a wall-clock watchdog
    virtual_time: bool,
}

fn execute(p: &Program, multi: Option<usize>, sched_seed: u64) -> Exec {
    // virtual (paused) time needs the runtime to go idle; a blocking task waiting for cancellation keeps it busy,
    // so programs with blocking tasks run in real time also on the current-thread runtime
    fn has_blocking(t: &TaskSpec) -> bool {
        t.blocking || t.children.iter().any(has_blocking) || t.nested.as_ref().map_or(false, |n| has_blocking(&n.root))
    }
    let paused = multi.is_none() && !has_blocking(&p.scope.root);
    let rt = match multi {
        None => tokio::runtime::Builder::new_current_thread().enable_time().start_paused(paused).build().unwrap(),
        Some(n) => tokio::runtime::Builder::new_multi_thread().worker_threads(n).enable_time().build().unwrap(),
    };
    // the caller's frame owns the log and the cells the tasks borrow
    let log = Log { seq: AtomicU64::new(0), evs: Mutex::new(vec![]) };
    let cells: Vec<AtomicU64> = (0..p.ntasks).map(|_| AtomicU64::new(0)).collect();
    let env = Env { log: &log, cells: &cells };
    let _ = sched_seed;
    let out: (Result<R, String>, bool) = rt.block_on(async {
        let root = ctx::root();
        let fut = async {
            // outer scope: lets the harness cancel "the caller's context" through the public API
            let (env, p) = (&env, p);
            let r: Result<R, u64> = scope::run!(&root, |ctx, s| async move {
                let caller_ctx_owned;
                let caller_ctx: &ctx::Ctx = match p.caller_deadline_ms {
                    Some(ms) => {
                        caller_ctx_owned = ctx.with_timeout(time::Duration::milliseconds(ms as i64));
                        &caller_ctx_owned
                    }
                    None => ctx,
                };
                if let Some(k) = p.caller_cancel_after {
                    s.spawn_bg(async move {
                        yields(k).await;
                        env.log.push(Ev::CallerCancel);
                        s.cancel();
                        Ok(())
                    });
                }
                Ok(run_scope(env, caller_ctx, &p.scope).await)
            })
            .await;
            r.unwrap_or(Err(u64::MAX))
        };
        // run in a task so that a re-raised panic is caught as a JoinError without unwinding through the harness
        let fut: std::pin::Pin<Box<dyn std::future::Future<Output = R> + Send + '_>> = Box::pin(fut);
        // SAFETY of the harness itself: we await the handle before leaving this frame in every path but the
        // hang path, which terminates the process.
        let fut: std::pin::Pin<Box<dyn std::future::Future<Output = R> + Send + 'static>> = unsafe { std::mem::transmute(fut) };
        let h = tokio::spawn(fut);
        let limit = if paused { std::time::Duration::from_secs(3600) } else { std::time::Duration::from_secs(30) };
        match tokio::time::timeout(limit, h).await {
            Ok(Ok(r)) => (Ok(r), false),
            Ok(Err(e)) => (Err(format!("{e}")), false),
            Err(_) => (Err("timeout".into()), true),
        }
    });
    let evs = log.evs.lock().unwrap_or_else(|e| e.into_inner()).clone();
    if out.1 {
        // never unwind / drop a hung scope (its must-complete guard aborts the process): the caller exits
        std::mem::forget(rt);
        return Exec { evs, top: out.0, hung: true, cells_ok: true, virtual_time: paused };
    }
    // every started task wrote its cell exactly once
    let started: Vec<usize> = evs.iter().filter_map(|(_, e)| if let Ev::Start(i) = e { Some(*i) } else { None }).collect();
    let cells_ok = (0..p.ntasks).all(|i| cells[i].load(Ordering::SeqCst) == if started.contains(&i) { 1 } else { 0 });
    drop(rt);
    Exec { evs, top: out.0, hung: false, cells_ok, virtual_time: paused }
}

fn prog_json(p: &Program) -> Value {
    json!({"program": format!("{:?}", p)})
}

/// Deadline scenarios on manual clocks: "the scope's context is cancelled ... when the caller's context is cancelled or its
/// deadline passes, and cancellation reaches every descendant context". A caller context with a 10 s deadline (inherited or
/// tightened; on the root's clock or on an independent clock of its own via `ctx::test_with_clock`) runs a scope whose root
/// task, background task and nested scope all wait for cancellation. One of the clocks is advanced past the deadline (or not
/// far enough): the scope must return iff the deadline has passed on the caller's own clock or on an ancestor's.
fn deadline_scenarios(rep: &mut Report, rng: &mut StdRng, replay_base: Value) {
    let independent = rng.gen_bool(0.5); // the caller context has a clock of its own
    let tighten = rng.gen_bool(0.5); // the caller tightens the inherited deadline to 5 s
    let advance_own = rng.gen_bool(0.5); // which clock moves: the caller's own (B) or the ancestor's (A)
    let secs: i64 = [3i64, 7, 11, 11][rng.gen_range(0..4)]; // short of every deadline / past the tightened one only / past both
    let nested = rng.gen_range(0..3u32);
    let rt = tokio::runtime::Builder::new_current_thread().enable_time().start_paused(true).build().unwrap();
    let (clock_a, clock_b) = (ctx::ManualClock::new(), ctx::ManualClock::new());
    let observed = Arc::new(AtomicU64::new(0));
    let returned = Arc::new(AtomicU64::new(0));
    let (obs, ret) = (&observed, &returned);
    let (ca, cb) = (&clock_a, &clock_b);
    let hung: (Option<(&'static str, String)>, bool) = rt.block_on(async move {
        let root = ctx::test_root(ca);
        let parent = root.with_timeout(time::Duration::seconds(10));
        let mut caller = if independent { ctx::test_with_clock(&parent, cb) } else { parent.with_deadline(time::Deadline::Infinite) };
        if tighten {
            caller = caller.with_timeout(time::Duration::seconds(5));
        }
        let caller = &caller;
        let scope_fut = async move {
            let _: Result<(), ()> = scope::run!(caller, |ctx, s| async move {
                s.spawn_bg(async move {
                    ctx.canceled().await;
                    obs.fetch_add(1, Ordering::SeqCst);
                    Ok(())
                });
                s.spawn(async move {
                    // nested scopes: cancellation reaches every descendant context
                    match nested {
                        0 => ctx.canceled().await,
                        1 => {
                            let _: Result<(), ()> = scope::run!(ctx, |ctx, s| async move {
                                s.spawn(async move {
                                    ctx.canceled().await;
                                    Ok(())
                                });
                                Ok(())
                            })
                            .await;
                        }
                        _ => {
                            let _: Result<(), ()> = scope::run!(ctx, |ctx, s| async move {
                                s.spawn(async move {
                                    let _: Result<(), ()> = scope::run!(ctx, |ctx, s| async move {
                                        s.spawn_bg(async move {
                                            ctx.canceled().await;
                                            Ok(())
                                        });
                                        ctx.canceled().await;
                                        Ok(())
                                    })
                                    .await;
                                    Ok(())
                                });
                                Ok(())
                            })
                            .await;
                        }
                    }
                    obs.fetch_add(1, Ordering::SeqCst);
                    Ok(())
                });
                ctx.canceled().await;
                obs.fetch_add(1, Ordering::SeqCst);
                Ok(())
            })
            .await;
            ret.fetch_add(1, Ordering::SeqCst);
        };
        let driver = async move {
            for _ in 0..50 {
                tokio::task::yield_now().await;
            }
            if independent && advance_own {
                cb.advance(time::Duration::seconds(secs));
            } else {
                ca.advance(time::Duration::seconds(secs));
            }
            for _ in 0..300 {
                tokio::task::yield_now().await;
            }
            let done = ret.load(Ordering::SeqCst) == 1;
            // the inherited deadline passes after 10 s on the caller's own clock, or on the ancestor's (the cancellation cascades);
            // the tightened one after 5 s on the caller's own clock only
            let own_clock_advanced = !independent || advance_own;
            let should = secs >= 10 || (tighten && secs >= 5 && own_clock_advanced);
            let mut bad = None;
            if should && !done {
                bad = Some(("scope-not-cancelled-at-deadline", format!("the caller's deadline passed ({secs} s on {} clock; independent clock: {independent}, tightened: {tighten}, nesting {nested}) but the scope has not returned; {} of 3 waiters observed the cancellation", if independent && advance_own { "its own" } else { "the ancestor's" }, obs.load(Ordering::SeqCst))));
            }
            if !should && done {
                bad = Some(("scope-cancelled-before-deadline", format!("no deadline has passed ({secs} s; independent clock: {independent}, tightened: {tighten}) but the scope returned")));
            }
            // release whatever still waits so that nothing is dropped unfinished
            ca.advance(time::Duration::seconds(100));
            cb.advance(time::Duration::seconds(100));
            bad
        };
        // a scope future must never be dropped unfinished (process abort): on a virtual-time deadlock it is leaked
        let mut both = Box::pin(async move { tokio::join!(scope_fut, driver).1 });
        tokio::select! {
            biased;
            bad = &mut both => (bad, true),
            _ = tokio::time::sleep(std::time::Duration::from_secs(3600)) => {
                std::mem::forget(both);
                (None, false)
            }
        }
    });
    rep.evaluations += 1;
    rep.count("deadline_scenarios");
    if independent { rep.count("deadline_scenarios_with_an_independent_clock"); }
    let replay = json!({"deadline_scenario": {"independent": independent, "tighten": tighten, "advance_own": advance_own, "seconds": secs, "nested": nested}, "base": replay_base});
    if let (Some((sig, detail)), _) = &hung {
        rep.violation(format!("{sig}||deadline"), detail.clone(), replay.clone());
    }
    if !hung.1 {
        std::mem::forget(rt);
        rep.violation("scope-never-returned||deadline".to_string(), "after both clocks moved 100 s past every deadline the scope still has not returned".to_string(), replay);
        rep.finish_and_exit();
    }
}

pub fn run(args: &Args, rep: &mut Report) {
    rep.rule = "one evaluation = one execution of a generated scope program on the real scope::run! (current-thread runtime with paused \
                clock = deterministic, and multi-thread runtimes with 2-8 workers = racy), checked offline against the event log; \
                non-trivial = the program has >= 3 tasks; distinct = distinct (program, observed event order)"
        .into();
    let small = args.extra.contains_key("small"); // Miri / sanitizer sized
    let nprog: u64 = args.extra_u64("programs").unwrap_or(if small { 6 } else { args.pick(500, 8000) });
    let reps_mt: u64 = if small { 1 } else { args.pick(3, 10) };
    let max_tasks = if small { 8 } else { 40 };
    let only: Option<u64> = args.replay.as_ref().map(|p| {
        let v: Value = vcommon::serde_json::from_slice(&std::fs::read(p).unwrap()).unwrap();
        v["replay"]["program_index"].as_u64().unwrap()
    });
    for i in 0..nprog {
        if let Some(o) = only { if o != i { continue; } } else if !rep.within_budget() { rep.count("stopped_by_budget"); break; }
        let mut rng = rng_for(args.seed, args.shard, 17, i);
        if !small && i % 5 == 0 && only.is_none() {
            let mut r2 = rng_for(args.seed, args.shard, 171, i);
            deadline_scenarios(rep, &mut r2, json!({"program_index": i}));
        }
        let allow_panic = i % 4 != 3;
        let nt = rng.gen_range(2..=max_tasks);
        let p = gen_program(&mut rng, nt, true, allow_panic);
        rep.count("programs");
        let modes: Vec<Option<usize>> = if small { vec![None, Some(2)] } else { let mut m = vec![None]; for _ in 0..reps_mt { m.push(Some([2usize, 3, 4, 8][rng.gen_range(0..4)])); } m };
        for mode in modes {
            rep.evaluations += 1;
            rep.count(if mode.is_some() { "executions_multi_thread" } else { "executions_current_thread_virtual_time" });
            let ex = execute(&p, mode, i);
            let replay = json!({"program_index": i, "mode": format!("{mode:?}"), "program": prog_json(&p)});
            if ex.hung && !ex.virtual_time {
                // wall-clock watchdog on the racy runtime: a violation only if the log proves a quiescent deadlock
                let trigger = ex.evs.iter().any(|(_, e)| matches!(e, Ev::End(_, Outcome::Err) | Ev::End(_, Outcome::Panic) | Ev::CallerCancel));
                if trigger {
                    rep.violation("scope-never-returned|wall-clock|", "watchdog: the outermost scope did not return for 30 s although a cancellation trigger was logged", replay.clone());
                } else {
                    rep.inconclusive("execution hit the 30 s wall-clock watchdog without a logged cancellation trigger");
                }
                rep.finish_and_exit();
            }
            let verdict = check(&p, &ex.evs, &ex.top, ex.hung);
            for (sig, detail) in verdict.violations {
                rep.violation(format!("{sig}||{}", if mode.is_some() { "multi-thread" } else { "current-thread" }), format!("{detail}; events: {:?}", &ex.evs.iter().map(|e| &e.1).collect::<Vec<_>>()), replay.clone());
            }
            if !ex.cells_ok {
                rep.violation("borrowed-cell-mismatch||".to_string(), "a started task did not write its caller-owned cell exactly once", replay.clone());
            }
            if ex.hung {
                rep.finish_and_exit();
            }
            // coverage counters
            let n_err = ex.evs.iter().filter(|(_, e)| matches!(e, Ev::End(_, Outcome::Err))).count();
            let n_panic = ex.evs.iter().filter(|(_, e)| matches!(e, Ev::End(_, Outcome::Panic))).count();
            let n_cancel = ex.evs.iter().filter(|(_, e)| matches!(e, Ev::ObservedCancel(_))).count();
            rep.add("task_executions", ex.evs.iter().filter(|(_, e)| matches!(e, Ev::Start(_))).count() as u64);
            rep.add("cancellations_observed", n_cancel as u64);
            if n_err > 0 { rep.count("executions_with_error"); }
            if n_panic > 0 { rep.count("executions_with_panic"); }
            if n_err > 1 { rep.count("executions_with_competing_errors"); }
            if p.caller_cancel_after.is_some() { rep.count("executions_with_caller_cancel"); }
            if p.caller_deadline_ms.is_some() { rep.count("executions_with_caller_deadline"); }
            if ex.evs.iter().any(|(_, e)| matches!(e, Ev::ScopeEnter(s) if *s > 0)) { rep.count("executions_with_nested_scope"); }
            rep.add("joins_that_returned_the_task_value", ex.evs.iter().filter(|(_, e)| matches!(e, Ev::JoinOk(..))).count() as u64);
            rep.add("joins_that_returned_canceled", ex.evs.iter().filter(|(_, e)| matches!(e, Ev::JoinCanceled(..))).count() as u64);
            rep.add("nested_scope_results_checked", ex.evs.iter().filter(|(_, e)| matches!(e, Ev::ScopeReturn(s, _) if *s > 0)).count() as u64);
            {
                // nested scopes entered by a blocking task run through scope::run_blocking!
                fn blocking_nested(t: &TaskSpec, out: &mut Vec<usize>) {
                    if let Some(n) = &t.nested {
                        if t.blocking { out.push(n.sid); }
                        blocking_nested(&n.root, out);
                    }
                    for c in &t.children { blocking_nested(c, out); }
                }
                let mut b = vec![];
                blocking_nested(&p.scope.root, &mut b);
                rep.add("run_blocking_scopes_executed", ex.evs.iter().filter(|(_, e)| matches!(e, Ev::ScopeEnter(s) if b.contains(s))).count() as u64);
            }
            if p.ntasks >= 3 {
                rep.distinct(vcommon::hash_of(&(i, args.shard, format!("{:?}", ex.evs.iter().map(|e| &e.1).collect::<Vec<_>>()))));
            }
            if rep.samples.len() < rep.max_samples && p.ntasks >= 4 && p.ntasks <= 7 {
                rep.sample(json!({"program_index": i, "tasks": p.ntasks, "mode": format!("{mode:?}"), "result": format!("{:?}", ex.top), "events": format!("{:?}", ex.evs.iter().map(|e| &e.1).collect::<Vec<_>>())}));
            }
        }
    }
}
