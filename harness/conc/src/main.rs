fn main(){}
