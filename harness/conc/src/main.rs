//! E5: concurrency workloads on zksync_concurrency only (so that the same binary runs natively,
//! under Miri, ThreadSanitizer and AddressSanitizer): C17 task scopes, C15(a) limiter,
//! C16(a') the generic prunable queue.
mod c15;
mod c17;
mod chan;

use vcommon::{Args, Report};

fn main() {
    let args = Args::parse();
    vcommon::install_quiet_panic_hook();
    let mut rep = Report::new(&args);
    match args.prop.as_str() {
        "C17" => c17::run(&args, &mut rep),
        "C15" => c15::run(&args, &mut rep),
        "C16" => chan::run(&args, &mut rep),
        p => panic!("unknown property {p}"),
    }
    std::process::exit(rep.finish());
}
