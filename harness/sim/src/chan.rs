//! C16(a) - the consensus inbound queue: the real filter / selection functions through
//! `bft::create_input_channel()` with genuinely signed messages. Sequential reference-queue diff and
//! small concurrent histories checked for linearizability.
use std::sync::{
    atomic::{AtomicU64, Ordering},
    Arc, Mutex,
};

use rand::{rngs::StdRng, Rng};
use vcommon::{json, rng_for, Args, Report};
use zksync_concurrency::ctx;
use zksync_consensus_bft as bft;
use zksync_consensus_roles::validator::{
    self,
    v2::{ChonkyMsg, CommitQC, LeaderProposal, ProposalJustification, ReplicaCommit, ReplicaNewView, ReplicaTimeout, TimeoutQC},
    ConsensusMsg,
};

use crate::world::SignedMsg;

/// identity of a pool message for the reference queue
#[derive(Clone, Copy, Debug, PartialEq, Eq, Hash)]
struct M {
    id: usize,
    sender: u8,
    kind: u8,
    view: u64,
    valid: bool,
}

#[derive(Clone, Default, Debug, PartialEq, Eq, Hash)]
struct RefQueue(Vec<M>);

impl RefQueue {
    fn send(&mut self, m: M) {
        if !m.valid {
            return;
        }
        if let Some(i) = self.0.iter().position(|x| x.sender == m.sender && x.kind == m.kind) {
            if self.0[i].view < m.view {
                self.0.remove(i);
                self.0.push(m);
            }
            return;
        }
        self.0.push(m);
    }
    fn recv(&mut self) -> Option<M> {
        if self.0.is_empty() { None } else { Some(self.0.remove(0)) }
    }
}

struct Pool {
    msgs: Vec<(M, SignedMsg)>,
}

fn build_pool(rng: &mut StdRng) -> Pool {
    let keys: Vec<validator::SecretKey> = (0..3).map(|_| rng.gen()).collect();
    let mut msgs = vec![];
    for (s, sk) in keys.iter().enumerate() {
        for kind in 0..4u8 {
            for view in 0..6u64 {
                for variant in 0..2 {
                    // two distinct messages per (sender, kind, view) so that "equal view" ties are exercised
                    let genesis: validator::GenesisHash = rng.gen();
                    // chain and epoch are sender-chosen signed fields: the queue's rule speaks about sender, kind and view only
                    let epoch = validator::EpochNumber([0u64, 0, 1, 2, 7, u64::MAX][rng.gen_range(0..6)]);
                    let v = validator::v2::View { genesis, epoch, number: validator::ViewNumber(view) };
                    // justification whose view() == `view`: certificate for view-1 (views start at 1 for these kinds)
                    let just = |rng: &mut StdRng| -> ProposalJustification {
                        let pv = validator::v2::View { genesis, epoch, number: validator::ViewNumber(view.saturating_sub(1)) };
                        if rng.gen_bool(0.5) {
                            let mut q: CommitQC = rng.gen();
                            q.message.view = pv;
                            ProposalJustification::Commit(q)
                        } else {
                            let mut q: TimeoutQC = rng.gen();
                            q.view = pv;
                            ProposalJustification::Timeout(q)
                        }
                    };
                    let (c, eff_view) = match kind {
                        0 => (ChonkyMsg::LeaderProposal(LeaderProposal { proposal_payload: Some(validator::Payload(vec![variant as u8; 3])), justification: just(rng) }), view.saturating_sub(1) + 1),
                        1 => (ChonkyMsg::ReplicaCommit(ReplicaCommit { view: v, proposal: rng.gen() }), view),
                        2 => (ChonkyMsg::ReplicaTimeout(ReplicaTimeout { view: v, high_vote: None, high_qc: None }), view),
                        _ => (ChonkyMsg::ReplicaNewView(ReplicaNewView { justification: just(rng) }), view.saturating_sub(1) + 1),
                    };
                    let mut signed = sk.sign_msg(ConsensusMsg::V2(c));
                    let valid = !(variant == 1 && view % 3 == 2);
                    if !valid {
                        // a signature that does not verify (made by another key)
                        signed.sig = keys[(s + 1) % 3].sign_msg(signed.msg.clone()).sig;
                    }
                    let id = msgs.len();
                    msgs.push((M { id, sender: s as u8, kind, view: eff_view, valid }, signed));
                }
            }
        }
    }
    Pool { msgs }
}

#[derive(Clone, Debug)]
enum HOp {
    Send(M),
    Recv(M),
}

fn linearizable(ops: &[(u64, u64, HOp)]) -> bool {
    fn rec(ops: &[(u64, u64, HOp)], done: u64, q: &RefQueue, memo: &mut std::collections::HashSet<(u64, RefQueue)>) -> bool {
        if done == (1u64 << ops.len()) - 1 {
            return true;
        }
        if !memo.insert((done, q.clone())) {
            return false;
        }
        let min_ret = ops.iter().enumerate().filter(|(i, _)| done >> i & 1 == 0).map(|(_, o)| o.1).min().unwrap();
        for (i, (call, _ret, op)) in ops.iter().enumerate() {
            if done >> i & 1 == 1 || *call > min_ret {
                continue;
            }
            let mut q2 = q.clone();
            let ok = match op {
                HOp::Send(m) => {
                    q2.send(*m);
                    true
                }
                HOp::Recv(got) => q2.recv() == Some(*got),
            };
            if ok && rec(ops, done | 1 << i, &q2, memo) {
                return true;
            }
        }
        false
    }
    rec(ops, 0, &RefQueue::default(), &mut Default::default())
}

fn req(m: &SignedMsg) -> bft::FromNetworkMessage {
    let (ack, _rx) = tokio::sync::oneshot::channel();
    bft::FromNetworkMessage { msg: m.clone(), ack }
}

pub fn run(args: &Args, rep: &mut Report) {
    rep.rule = "one evaluation = one send/recv history on the queue returned by bft::create_input_channel() with genuinely signed consensus messages \
                (3 senders x 4 kinds x views 0-5 x 2 variants, some with signatures that do not verify): sequential histories are diffed against a \
                reference queue written from the property statement; concurrent histories (2-4 sender threads + consumer, <= 12 operations) are checked for \
                linearizability by exhaustive search; distinct = distinct histories"
        .into();
    let mut prng = rng_for(args.seed, 0, 160, 0);
    let pool = build_pool(&mut prng);
    let find = |m: &SignedMsg| pool.msgs.iter().find(|(_, s)| s == m).map(|(i, _)| *i);
    let rt = tokio::runtime::Builder::new_current_thread().enable_time().build().unwrap();
    let nseq: u64 = args.pick(250, 10000);
    for case in 0..nseq {
        if !rep.within_budget() { rep.count("stopped_by_budget"); break; }
        let mut rng = rng_for(args.seed, args.shard, 162, case);
        let (tx, mut rx) = bft::create_input_channel();
        let mut reference = RefQueue::default();
        let n = rng.gen_range(1..40);
        let mut hist = vec![];
        rt.block_on(async {
            let root = ctx::root();
            for _ in 0..n {
                if rng.gen_bool(0.65) || reference.0.is_empty() {
                    let (m, s) = &pool.msgs[rng.gen_range(0..pool.msgs.len())];
                    tx.send(req(s));
                    reference.send(*m);
                    hist.push(format!("send{m:?}"));
                    rep.count("sequential_sends");
                    if !m.valid { rep.count("sends_with_bad_signature"); }
                } else {
                    let got = rx.recv(&root).await.ok().and_then(|r| find(&r.msg));
                    let want = reference.recv();
                    hist.push(format!("recv->{got:?}"));
                    rep.count("sequential_recvs_checked");
                    if got != want {
                        rep.violation("differs-from-reference-queue||sequential".to_string(), format!("recv returned {got:?}, reference {want:?}; history {hist:?}"), json!({"case": case}));
                        return;
                    }
                }
            }
            while !reference.0.is_empty() {
                let got = rx.recv(&root).await.ok().and_then(|r| find(&r.msg));
                let want = reference.recv();
                if got != want {
                    rep.violation("differs-from-reference-queue||sequential-drain".to_string(), format!("recv returned {got:?}, reference {want:?}; history {hist:?}"), json!({"case": case}));
                    return;
                }
            }
        });
        rep.evaluations += 1;
        rep.count("sequential_histories");
        rep.distinct(vcommon::hash_of(&hist));
        if rep.samples.len() < 2 && n < 8 {
            rep.sample(json!({"sequential_history": hist}));
        }
    }
    let nconc: u64 = args.pick(60, 3000);
    for case in 0..nconc {
        if !rep.within_budget() { rep.count("stopped_by_budget"); break; }
        let mut rng = rng_for(args.seed, args.shard, 163, case);
        let (tx, mut rx) = bft::create_input_channel();
        let tx = Arc::new(tx);
        let stamp = Arc::new(AtomicU64::new(0));
        let hist: Arc<Mutex<Vec<(u64, u64, HOp)>>> = Arc::new(Mutex::new(vec![]));
        let nsenders = rng.gen_range(2..=4usize);
        let per = rng.gen_range(1..=3usize);
        let plan: Vec<Vec<usize>> = (0..nsenders).map(|_| (0..per).map(|_| rng.gen_range(0..pool.msgs.len())).collect()).collect();
        let nrecv = rng.gen_range(0..=3usize);
        std::thread::scope(|sc| {
            for msgs in &plan {
                let (tx, stamp, hist, pool) = (tx.clone(), stamp.clone(), hist.clone(), &pool);
                sc.spawn(move || {
                    for i in msgs {
                        let (m, s) = &pool.msgs[*i];
                        let r0 = req(s);
                        let c = stamp.fetch_add(1, Ordering::SeqCst);
                        tx.send(r0);
                        let r = stamp.fetch_add(1, Ordering::SeqCst);
                        hist.lock().unwrap().push((c, r, HOp::Send(*m)));
                    }
                });
            }
            let rt2 = tokio::runtime::Builder::new_current_thread().enable_time().build().unwrap();
            rt2.block_on(async {
                let root = ctx::root();
                for _ in 0..nrecv {
                    let c = stamp.fetch_add(1, Ordering::SeqCst);
                    let got = tokio::time::timeout(std::time::Duration::from_millis(100), rx.recv(&root)).await.ok().and_then(|r| r.ok());
                    let r = stamp.fetch_add(1, Ordering::SeqCst);
                    if let Some(g) = got {
                        match find(&g.msg) {
                            Some(m) => hist.lock().unwrap().push((c, r, HOp::Recv(m))),
                            None => rep.violation("delivered-message-never-sent||".to_string(), "unknown message delivered", json!({"case": case})),
                        }
                    }
                }
            });
        });
        let mut left = vec![];
        rt.block_on(async {
            let root = ctx::root();
            while let Ok(Ok(m)) = tokio::time::timeout(std::time::Duration::from_millis(0), rx.recv(&root)).await {
                left.push(find(&m.msg));
            }
        });
        let mut h = hist.lock().unwrap().clone();
        for m in left.iter().flatten() {
            let c = stamp.fetch_add(1, Ordering::SeqCst);
            let r = stamp.fetch_add(1, Ordering::SeqCst);
            h.push((c, r, HOp::Recv(*m)));
        }
        rep.evaluations += 1;
        rep.count("concurrent_histories");
        let replay = json!({"case": case, "history": format!("{h:?}")});
        let mut seen = std::collections::HashSet::new();
        for m in left.iter().flatten() {
            if !seen.insert((m.sender, m.kind)) {
                rep.violation("two-pending-for-one-sender-and-kind||".to_string(), format!("left in the queue at quiescence: {left:?}"), replay.clone());
            }
            if !m.valid {
                rep.violation("delivered-invalid-message||".to_string(), format!("{m:?}"), replay.clone());
            }
        }
        if h.len() <= 13 {
            rep.count("linearizability_checks");
            if !linearizable(&h) {
                rep.violation("not-linearizable||".to_string(), format!("history {h:?}"), replay.clone());
            }
        }
        rep.distinct(vcommon::hash_of(&format!("{:?}", h.iter().map(|x| &x.2).collect::<Vec<_>>())));
        if rep.samples.len() < 4 && h.len() < 7 {
            rep.sample(json!({"concurrent_history(call,return,op)": format!("{h:?}")}));
        }
    }
}
