//! Scenario families and the per-property drivers of the E1 simulator.
use rand::{rngs::StdRng, Rng};
use vcommon::{json, rng_for, Args, Report};
use zksync_consensus_roles::validator;

use crate::{
    director::{CaseResult, Director, Policy},
    engine::CrashAt,
    world::Committee,
};

const FAMILIES: [&str; 13] = [
    "benign", "random-partition", "lossy-reorder", "equivocating-leader", "hidden-commit", "timeout-liar",
    "vote-flood", "crash-random", "lagging-sync", "heal", "absurd", "poisoned-laggard", "twins"];

fn policy(fam: &str, rng: &mut StdRng, steps: usize) -> (Policy, f64) {
    // returns (policy, byzantine fraction of f)
    let mut p = Policy::base("benign", steps);
    let mut byz = 0.0;
    match fam {
        "benign" => {}
        "random-partition" => {
            p.partition_period = rng.gen_range(40..200);
            p.p_time = 0.01;
            p.fifo = false;
            byz = 1.0;
            p.p_byz = 0.02;
        }
        "lossy-reorder" => {
            p.p_drop = rng.gen_range(0.05..0.35);
            p.p_dup = 0.05;
            p.p_replay = 0.03;
            p.fifo = false;
            p.p_time = 0.01;
            p.p_sync = 0.03;
        }
        "equivocating-leader" => {
            byz = 1.0;
            p.p_byz = 0.12;
            p.fifo = false;
            p.p_drop = 0.05;
            p.p_time = 0.005;
        }
        "hidden-commit" => {
            p.hidden_commit = true;
            byz = if rng.gen_bool(0.5) { 1.0 } else { 0.0 };
            p.p_byz = 0.03;
            p.fifo = rng.gen_bool(0.5);
        }
        "timeout-liar" => {
            byz = 1.0;
            p.p_byz = 0.15;
            p.p_drop = 0.15;
            p.p_time = 0.02;
            p.fifo = false;
        }
        "vote-flood" => {
            byz = 1.0;
            p.p_byz = 0.35;
            p.p_replay = 0.1;
        }
        "crash-random" => {
            p.p_crash = 0.02;
            p.p_drop = 0.05;
            p.fifo = false;
            byz = if rng.gen_bool(0.5) { 1.0 } else { 0.0 };
            p.p_byz = 0.05;
            p.p_sync = 0.05;
        }
        "lagging-sync" => {
            p.partition_period = rng.gen_range(100..300);
            p.p_sync = 0.08;
            p.p_forged_sync = 0.3;
            p.p_drop = 0.1;
            if rng.gen_bool(0.6) {
                // one correct node is cut off for the first half (the others keep committing), then catches up from a lying peer
                p.laggard = true;
                p.partition_period = 0;
            }
        }
        "poisoned-laggard" => {
            // one correct replica that the others need for a quorum is cut off; the Byzantine validators vote like honest ones so
            // that the rest finalizes blocks, and feed the isolated replica old timeout certificates carrying new commit certificates
            p.poisoned_laggard = true;
            p.p_byz = 0.4;
            p.p_drop = 0.02;
            byz = 1.0;
        }
        "twins" => {
            // every Byzantine key runs two real replicas in different halves of a two-way partition that is re-drawn every
            // few dozen steps (Twins methodology); the harness-signed adversary stays active at a low rate
            p.twins = true;
            byz = 1.0;
            p.p_byz = 0.02;
            p.partition_period = rng.gen_range(20..150);
            p.fifo = rng.gen_bool(0.3);
            p.p_drop = 0.03;
            p.p_time = 0.01;
        }
        "heal" => {
            let inner = ["random-partition", "lossy-reorder", "equivocating-leader", "timeout-liar", "crash-random", "hidden-commit", "poisoned-laggard", "poisoned-laggard", "twins", "equivocating-leader", "timeout-liar"][rng.gen_range(0..11)];
            let (q, b) = policy(inner, rng, steps);
            p = q;
            byz = b;
            p.heal = true;
            p.partial_timeout_round = rng.gen_bool(0.35);
            p.byz_silent_in_suffix = rng.gen_bool(0.5);
        }
        "absurd" => {
            byz = 1.0;
            p.p_byz = 0.25;
            p.extreme = true;
        }
        _ => unreachable!(),
    }
    p.family = FAMILIES.iter().find(|f| **f == fam).unwrap();
    (p, byz)
}

fn committee(rng: &mut StdRng, pool: &[validator::SecretKey], byz_fraction: f64, case: u64) -> Committee {
    // sizes where f >= 1 are preferred (Byzantine validators need weight <= f)
    let n = match case % 5 {
        0 => 6,
        1 => rng.gen_range(4..=7),
        2 => rng.gen_range(6..=9),
        3 => rng.gen_range(1..=5),
        _ => 7,
    };
    let family = match case % 7 { 0 | 1 | 2 => 0, 3 => 3, 4 => 1, 5 => 2, _ => 4 };
    let sel = validator::LeaderSelection {
        frequency: [1, 1, 1, 2, 3][rng.gen_range(0..5)],
        mode: if rng.gen_bool(0.25) { validator::LeaderSelectionMode::Weighted } else { validator::LeaderSelectionMode::RoundRobin },
    };
    let first_block = [0u64, 0, 1, 7][rng.gen_range(0..4)];
    let all = rng.gen_bool(0.7);
    Committee::generate(rng, pool, n, family, byz_fraction, first_block, sel, all)
}

pub struct CaseSpec {
    pub prop: String,
    pub family: &'static str,
    pub seed: u64,
    pub shard: u64,
    pub case: u64,
    pub steps: usize,
    pub crash_plan: Option<(usize, CrashAt)>,
    pub target_pick: u64,
}

/// Runs one case on a fresh single-threaded runtime. Deterministic function of (tree, spec).
pub fn run_case(pool: &[validator::SecretKey], spec: &CaseSpec) -> Result<(CaseResult, String), vcommon::Panicked> {
    let mut rng = rng_for(spec.seed, spec.shard, 100, spec.case);
    let (mut pol, byzf) = policy(spec.family, &mut rng, spec.steps);
    pol.prop = spec.prop.clone();
    let c = committee(&mut rng, pool, byzf, spec.case);
    let desc = format!("family={} n={} weights={:?} byz={:?} f={} sel={:?} first_block={}", pol.family, c.n(), c.w, c.byz, c.f(), c.schedule.leader_selection(), c.genesis.first_block.0);
    if let Some((_, at)) = spec.crash_plan {
        // the crash target is chosen among the correct nodes of this committee
        let correct: Vec<usize> = (0..c.n()).filter(|i| !c.byz[*i]).collect();
        let t = correct[(spec.target_pick % correct.len() as u64) as usize];
        pol.crash_plan = Some((t, at));
        pol.adversarial_after_crash = true;
    }
    vcommon::catch(|| {
        let rt = tokio::runtime::Builder::new_current_thread().build().unwrap();
        let res = rt.block_on(async {
            let d = Director::new(c, pol, rng).await;
            d.run().await
        });
        drop(rt);
        (res, desc.clone())
    })
}

fn merge(rep: &mut Report, prop: &str, res: &CaseResult, desc: &str, spec: &CaseSpec, extra: vcommon::Value) {
    rep.evaluations += 1;
    rep.count(&format!("cases_{}", spec.family));
    for (k, v) in &res.counters {
        rep.add(k, *v);
    }
    for (k, v) in &res.maxima {
        rep.max(k, *v);
    }
    rep.add("deliveries", res.deliveries);
    rep.add("blocks_committed_total", res.commits);
    rep.add("byzantine_messages_accepted_total", res.byz_accepted);
    rep.max("max_view_reached", res.max_view);
    rep.add("distinct_replica_states", res.distinct_states.len() as u64);
    let nontrivial = res.commits >= 1;
    if nontrivial {
        rep.count("cases_with_commits");
        rep.distinct(res.schedule_hash);
    }
    let replay = json!({"family": spec.family, "case": spec.case, "steps": spec.steps,
        "crash": spec.crash_plan.map(|(_, a)| json!({"index": a.index, "apply": a.apply})), "target_pick": spec.target_pick, "extra": extra});
    for a in &res.alerts {
        if a.prop == prop {
            rep.violation(format!("{}{}", a.signature, spec.family), format!("{} [{desc}]", a.detail), replay.clone());
        } else {
            rep.count(&format!("alerts_of_other_monitors_{}", a.prop));
            if rep.notes.len() < 10 {
                rep.notes.push(format!("monitor {} fired during a {prop} run: {} {}", a.prop, a.signature, a.detail));
            }
        }
    }
    for (node, why) in &res.died {
        rep.count("replica_incarnations_that_died_on_their_own");
        if prop == "C10" || prop == "C06" {
            let loc = why.split(':').take(3).collect::<Vec<_>>().join(":");
            rep.violation(format!("replica-died|{loc}|{}", spec.family), format!("node {node} stopped on its own: {why} [{desc}]"), replay.clone());
        } else if rep.notes.len() < 10 {
            rep.notes.push(format!("node {node} stopped on its own: {why} [{desc}]"));
        }
    }
    if rep.samples.len() < rep.max_samples && (nontrivial || !res.alerts.is_empty()) {
        rep.sample(json!({"case": spec.case, "setup": desc, "deliveries": res.deliveries, "blocks_committed": res.commits, "max_view": res.max_view,
            "byzantine_messages_accepted": res.byz_accepted, "suffix_timeouts": res.suffix_timeouts, "crash": format!("{:?}", res.crash_exercised),
            "schedule_hash": format!("{:016x}", res.schedule_hash)}));
    }
}

fn families_for(prop: &str) -> Vec<&'static str> {
    match prop {
        "C01" | "C02" => vec!["benign", "random-partition", "lossy-reorder", "equivocating-leader", "hidden-commit", "timeout-liar", "crash-random", "lagging-sync", "hidden-commit", "equivocating-leader", "twins"],
        "C05" => vec!["benign", "random-partition", "lossy-reorder", "equivocating-leader", "hidden-commit", "timeout-liar", "vote-flood", "crash-random", "lagging-sync", "twins"],
        "C06" => vec!["heal"],
        "C16" => vec!["vote-flood", "vote-flood", "timeout-liar", "absurd"],
        "C10" => vec!["absurd", "vote-flood", "equivocating-leader"],
        _ => vec!["benign"],
    }
}

pub fn run(args: &Args, rep: &mut Report) {
    let prop = args.prop.clone();
    let mut pool_rng = rng_for(args.seed, 0, 101, 0);
    let pool: Vec<validator::SecretKey> = (0..12).map(|_| pool_rng.gen()).collect();
    rep.rule = "one evaluation = one simulated case: real bft::Config::run replicas of a generated committee driven for up to `steps` director steps \
                (deliver/lose/duplicate/replay/reorder, partitions, clock advances, Byzantine messages from <= f weight, block sync, crashes) with all \
                monitors online; non-trivial = at least one block committed; distinct = distinct delivery schedules (hash of the (message, destination) sequence)"
        .into();
    let steps: usize = args.extra_u64("steps").map(|x| x as usize).unwrap_or(args.pick(1500, 4000));
    if let Some(path) = &args.replay {
        let v: vcommon::Value = vcommon::serde_json::from_slice(&std::fs::read(path).unwrap()).unwrap();
        let r = &v["replay"];
        let fam = FAMILIES.iter().find(|f| **f == r["family"].as_str().unwrap()).unwrap();
        let crash = r["crash"].as_object().map(|o| (0usize, CrashAt { index: o["index"].as_u64().unwrap(), apply: o["apply"].as_bool().unwrap() }));
        let spec = CaseSpec { prop: prop.clone(), family: fam, seed: args.seed, shard: args.shard, case: r["case"].as_u64().unwrap(), steps: r["steps"].as_u64().unwrap() as usize, crash_plan: crash, target_pick: r["target_pick"].as_u64().unwrap_or(0) };
        match run_case(&pool, &spec) {
            Ok((res, desc)) => merge(rep, &prop, &res, &desc, &spec, json!({})),
            Err(p) => rep.inconclusive(format!("harness panicked during replay at {}: {}", p.location, p.message)),
        }
        return;
    }
    if prop == "C03" {
        return run_c03(args, rep, &pool, steps);
    }
    let fams = families_for(&prop);
    let ncases: u64 = args.extra_u64("cases").unwrap_or(args.pick(12, 400));
    for i in 0..ncases {
        if !rep.within_budget() {
            rep.count("stopped_by_budget");
            break;
        }
        let fam = fams[((i + args.shard) % fams.len() as u64) as usize];
        // thorough: short and long cases alternate (many cases per time box, and deep ones)
        let steps_i = if i % 2 == 0 { steps.min(1500) } else { steps };
        let spec = CaseSpec { prop: prop.clone(), family: fam, seed: args.seed, shard: args.shard, case: i, steps: steps_i, crash_plan: None, target_pick: 0 };
        match run_case(&pool, &spec) {
            Ok((res, desc)) => {
                if let Some(t) = res.suffix_timeouts {
                    rep.max("max_timeouts_until_progress_in_fair_suffix", t);
                    rep.count("fair_suffixes_that_progressed");
                    rep.count(&format!("suffix_progress_after_{t}_timeouts"));
                }
                merge(rep, &prop, &res, &desc, &spec, json!({}));
            }
            Err(p) => rep.inconclusive(format!("harness panicked in case {i} ({fam}) at {}: {}", p.location, p.message)),
        }
    }
}

/// C03: crash-point enumeration. A base run numbers the durable writes of a target replica; the case is
/// then re-run with a crash inside write i (applied / not applied), restart, adversarial continuation.
fn run_c03(args: &Args, rep: &mut Report, pool: &[validator::SecretKey], steps: usize) {
    let fams = ["equivocating-leader", "lossy-reorder", "hidden-commit", "timeout-liar"];
    let nbase: u64 = args.extra_u64("cases").unwrap_or(args.pick(2, 14));
    let sample: usize = args.pick(10, usize::MAX);
    let steps = steps.min(args.pick(700, 1500));
    for b in 0..nbase {
        if !rep.within_budget() {
            rep.count("stopped_by_budget");
            break;
        }
        let fam = fams[((b + args.shard) % fams.len() as u64) as usize];
        let target_pick = b + args.shard;
        let base = CaseSpec { prop: "C03".into(), family: fam, seed: args.seed, shard: args.shard, case: b, steps, crash_plan: None, target_pick };
        let (res, desc) = match run_case(pool, &base) {
            Ok(x) => x,
            Err(p) => {
                rep.inconclusive(format!("harness panicked in base case {b} at {}: {}", p.location, p.message));
                continue;
            }
        };
        merge(rep, "C03", &res, &desc, &base, json!({"base": true}));
        // the target is resolved inside run_case from target_pick; its write count:
        // (writes_of is keyed by node index; the target is the (target_pick % correct)-th correct node)
        let mut keys: Vec<usize> = res.writes_of.keys().copied().collect();
        keys.sort();
        let t = keys[(target_pick % keys.len() as u64) as usize];
        let w = res.writes_of[&t];
        rep.add("write_points_enumerated", w);
        let mut rng = rng_for(args.seed, args.shard, 103, b);
        let mut points: Vec<u64> = (1..=w).collect();
        if points.len() > sample {
            use rand::seq::SliceRandom;
            points.shuffle(&mut rng);
            points.truncate(sample);
        }
        for i in points {
            for apply in [true, false] {
                if !rep.within_budget() {
                    break;
                }
                let spec = CaseSpec { prop: "C03".into(), family: fam, seed: args.seed, shard: args.shard, case: b, steps, crash_plan: Some((t, CrashAt { index: i, apply })), target_pick };
                match run_case(pool, &spec) {
                    Ok((res, desc)) => {
                        if let Some((_, view, _)) = res.crash_exercised {
                            rep.count("crash_points_exercised");
                            rep.count(if apply { "crash_with_write_applied" } else { "crash_with_write_not_applied" });
                            rep.distinct(vcommon::hash_of(&(args.shard, b, i, apply, view)));
                        } else {
                            rep.count("crash_point_not_reached");
                        }
                        merge(rep, "C03", &res, &desc, &spec, json!({}));
                    }
                    Err(p) => rep.inconclusive(format!("harness panicked in crash run at {}: {}", p.location, p.message)),
                }
            }
        }
    }
}
