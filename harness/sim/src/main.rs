//! E1: replica simulator. Real `bft::Config::run` x N over harness-owned network, storage, clock,
//! Byzantine validators and crashes, with online monitors (C01, C02b, C03, C05, C06, C10-L6, C16b).
mod byz;
mod chan;
mod director;
mod engine;
mod log;
mod monitor;
mod scen;
mod world;

use vcommon::{Args, Report};

fn main() {
    let args = Args::parse();
    vcommon::install_quiet_panic_hook();
    let mut rep = Report::new(&args);
    if args.extra.get("mode").map(|s| s.as_str()) == Some("channel") {
        chan::run(&args, &mut rep);
    } else {
        scen::run(&args, &mut rep);
    }
    std::process::exit(rep.finish());
}
