//! Append-only global event log of a simulation case (single logical clock).
use std::sync::Mutex;

use zksync_consensus_bft::verif::Snapshot;
use zksync_consensus_roles::validator;

#[derive(Debug, Clone)]
pub enum StepKind {
    Started,
    Message { msg: validator::Signed<validator::ConsensusMsg>, accepted: bool },
    TimerExpired,
}

#[derive(Debug, Clone)]
pub enum Ev {
    /// a message observed on the outbound channel of `node`, with the durable replica state at that moment
    Out { node: usize, inc: u64, msg: validator::Signed<validator::ConsensusMsg>, durable: validator::ReplicaState },
    SetState { node: usize, inc: u64, state: validator::ReplicaState },
    QueueBlock { node: usize, inc: u64, block: validator::Block, want: validator::BlockNumber },
    Step { node: usize, inc: u64, kind: StepKind, snap: Snapshot },
    Restart { node: usize, inc: u64, durable: validator::ReplicaState },
    /// handing a message to the node's inbound queue panicked (in production: inside the network handler task)
    InboundPanic { node: usize, location: String, message: String },
}

#[derive(Debug, Default)]
pub struct Log {
    evs: Mutex<Vec<Ev>>,
}

impl Log {
    pub fn push(&self, e: Ev) {
        self.evs.lock().unwrap().push(e);
    }
    pub fn len(&self) -> usize {
        self.evs.lock().unwrap().len()
    }
    /// events from index `from`
    pub fn since(&self, from: usize) -> Vec<Ev> {
        self.evs.lock().unwrap()[from..].to_vec()
    }
}
