//! The director: plays network, time, faults and Byzantine validators for one simulation case.
use std::{
    collections::{BTreeMap, HashSet},
    sync::Arc,
};

use rand::{rngs::StdRng, seq::SliceRandom, Rng};
use zksync_consensus_roles::validator::{self, v2::ChonkyMsg, ConsensusMsg};

use crate::{
    byz::{self, Knowledge},
    engine::CrashAt,
    log::{Ev, StepKind},
    monitor::{Alert, Monitors},
    world::{Committee, SignedMsg, World, VIEW_TIMEOUT_MS},
};

#[derive(Clone, Debug)]
pub struct Policy {
    pub family: &'static str,
    pub steps: usize,
    pub p_drop: f64,
    pub p_dup: f64,
    pub p_replay: f64,
    pub fifo: bool,
    pub p_time: f64,
    pub p_byz: f64,
    pub p_sync: f64,
    pub p_forged_sync: f64,
    /// isolate one correct node (the others still form a quorum) for the first half of the case, then resume block sync for it
    /// with forged re-submissions of parked blocks
    pub laggard: bool,
    /// the isolated node is one the correct nodes NEED for a quorum: Byzantine validators vote like honest ones meanwhile and
    /// poison it with old certificates (C06)
    pub poisoned_laggard: bool,
    /// every Byzantine key additionally runs two *real* replicas (twins) in different partitions
    pub twins: bool,
    /// (before the heal) all correct replicas time out in one view, every one of them receives the timeout votes of only a few
    /// others - and then a Byzantine vote for that view followed by one for the next view; everything else is lost
    pub partial_timeout_round: bool,
    pub p_crash: f64,
    pub partition_period: usize,
    pub hidden_commit: bool,
    pub extreme: bool,
    pub heal: bool,
    pub byz_silent_in_suffix: bool,
    /// (node, crash point): kill the node inside its k-th durable write and restart it
    pub crash_plan: Option<(usize, CrashAt)>,
    /// after a planned crash: deliver the "other" equivocating proposal / replays to the restarted node first
    pub adversarial_after_crash: bool,
    pub max_views: u64,
    /// the property this run decides: only its monitors stop a case early
    pub prop: String,
}

impl Policy {
    pub fn base(family: &'static str, steps: usize) -> Self {
        Policy {
            family,
            steps,
            p_drop: 0.0,
            p_dup: 0.0,
            p_replay: 0.0,
            fifo: true,
            p_time: 0.0,
            p_byz: 0.0,
            p_sync: 0.02,
            p_forged_sync: 0.0,
            laggard: false,
            poisoned_laggard: false,
            twins: false,
            partial_timeout_round: false,
            p_crash: 0.0,
            partition_period: 0,
            hidden_commit: false,
            extreme: false,
            heal: false,
            byz_silent_in_suffix: true,
            crash_plan: None,
            adversarial_after_crash: false,
            max_views: 60,
            prop: String::new(),
        }
    }
}

#[derive(Default, Debug)]
pub struct CaseResult {
    pub alerts: Vec<Alert>,
    pub counters: BTreeMap<String, u64>,
    pub maxima: BTreeMap<String, u64>,
    pub commits: u64,
    pub max_view: u64,
    pub deliveries: u64,
    pub writes_of: BTreeMap<usize, u64>,
    pub died: Vec<(usize, String)>,
    pub schedule_hash: u64,
    pub distinct_states: HashSet<u64>,
    pub suffix_timeouts: Option<u64>,
    pub byz_accepted: u64,
    pub crash_exercised: Option<(u64, u64, &'static str)>,
    pub notes: Vec<String>,
}

struct Net {
    msgs: Vec<SignedMsg>,
    /// (message id, destination, sender index or usize::MAX for crafted)
    inflight: Vec<(usize, usize, usize)>,
    sched: vcommon::Fnv,
}

fn kind_of(m: &SignedMsg) -> (u8, u64) {
    let ConsensusMsg::V2(c) = &m.msg;
    match c {
        ChonkyMsg::LeaderProposal(p) => (0, p.view().number.0),
        ChonkyMsg::ReplicaCommit(v) => (1, v.view.number.0),
        ChonkyMsg::ReplicaTimeout(t) => (2, t.view.number.0),
        ChonkyMsg::ReplicaNewView(nv) => (3, nv.view().number.0),
    }
}

pub struct Director {
    pub w: World,
    pub mon: Monitors,
    pub c: Arc<Committee>,
    pub pol: Policy,
    rng: StdRng,
    net: Net,
    know: Knowledge,
    log_cursor: usize,
    node_view: Vec<u64>,
    groups: Vec<u8>,
    hidden: Option<(u64, usize)>,
    hidden_lossy_views: u64,
    hidden_loss_pct: u64,
    /// hidden-commit cases in which correct voters of the hidden view are restarted right after their vote left the node
    /// (before their next state change): what they report about that vote afterwards comes from the durable state alone
    hidden_restart_pct: u32,
    hidden_restarted: Vec<usize>,
    /// (view, payload x, payload y, nodes that only get to see votes for x)
    steer: Option<(u64, validator::PayloadHash, validator::PayloadHash, Vec<usize>)>,
    res: CaseResult,
    crashed_once: bool,
    down: Vec<bool>,
    /// (node, step at which its isolation ends)
    laggard: Option<(usize, usize)>,
    /// (committee index of a twin key, kind, view) -> distinct contents signed by the twins of that key
    twin_said: BTreeMap<(usize, u8, u64), HashSet<u64>>,
}

impl Director {
    pub async fn new(c: Committee, pol: Policy, rng: StdRng) -> Self {
        let w = World::new(c, pol.twins).await;
        let c = w.committee.clone();
        let n = w.nodes.len();
        Director {
            mon: Monitors::new(c.clone()),
            w,
            c,
            pol,
            rng,
            net: Net { msgs: vec![], inflight: vec![], sched: Default::default() },
            know: Knowledge::default(),
            log_cursor: 0,
            node_view: vec![0; n],
            groups: vec![0; n],
            hidden: None,
            hidden_lossy_views: 0,
            hidden_loss_pct: 0,
            hidden_restart_pct: 0,
            hidden_restarted: vec![],
            steer: None,
            laggard: None,
            twin_said: BTreeMap::new(),
            res: CaseResult::default(),
            crashed_once: false,
            down: vec![false; n],
        }
    }

    fn count(&mut self, k: &str) {
        *self.res.counters.entry(k.to_string()).or_default() += 1;
    }

    /// Reads new log events: emitted messages go to the pool / in flight; replica views are tracked.
    fn collect(&mut self) {
        let evs = self.w.log.since(self.log_cursor);
        self.log_cursor += evs.len();
        let correct = self.w.correct();
        let twins = self.w.twins();
        for e in evs {
            match e {
                Ev::Out { node, msg, .. } => {
                    self.know.learn(&msg);
                    let id = self.net.msgs.len();
                    self.net.msgs.push(msg);
                    if node >= self.c.n() {
                        self.res.counters.entry("messages_emitted_by_twin_replicas".into()).and_modify(|x| *x += 1).or_insert(1);
                        let m = &self.net.msgs[id];
                        let ConsensusMsg::V2(cm) = &m.msg;
                        let fp = match cm {
                            ChonkyMsg::LeaderProposal(p) => Some((0u8, p.view().number.0, vcommon::hash_bytes(&p.proposal_payload.as_ref().map(|x| x.0.clone()).unwrap_or_default()))),
                            ChonkyMsg::ReplicaCommit(v) => Some((1u8, v.view.number.0, vcommon::hash_of(&v.proposal.payload))),
                            _ => None,
                        };
                        if let Some((k, v, h)) = fp {
                            let e = self.twin_said.entry((self.w.twin_of[node - self.c.n()], k, v)).or_default();
                            e.insert(h);
                            if e.len() == 2 {
                                self.res.counters.entry(if k == 0 { "views_with_two_different_proposals_by_twins_of_one_key".into() } else { "views_with_two_different_commit_votes_by_twins_of_one_key".to_string() }).and_modify(|x| *x += 1).or_insert(1);
                            }
                        }
                    }
                    for d in correct.iter().chain(twins.iter()) {
                        self.net.inflight.push((id, *d, node));
                    }
                }
                Ev::Step { node, snap, kind, .. } => {
                    self.node_view[node] = snap.view.0;
                    if let StepKind::Message { accepted: true, msg } = &kind {
                        if self.c.index_of(&msg.key).map_or(false, |i| self.c.byz[i]) {
                            self.res.byz_accepted += 1;
                        }
                    }
                }
                _ => {}
            }
        }
        self.mon.process(&self.w.log);
    }

    async fn settle(&mut self) {
        self.w.settle().await;
        self.collect();
        // incarnations that ended on their own
        for i in self.w.correct() {
            if let Some(d) = self.w.node(i).died.clone() {
                if !self.down[i] && !self.w.node(i).alive {
                    self.down[i] = true;
                    self.res.died.push((i, d));
                }
            }
        }
    }

    fn alerted(&self) -> bool {
        self.mon.alerts.iter().any(|a| a.prop == self.pol.prop)
    }

    fn cur_view(&self) -> u64 {
        self.w.correct().iter().map(|i| self.node_view[*i]).max().unwrap_or(0)
    }

    fn reachable(&self, from: usize, to: usize) -> bool {
        from == usize::MAX || self.groups[from] == self.groups[to]
    }

    fn do_deliver(&mut self, id: usize, dest: usize) {
        let m = self.net.msgs[id].clone();
        if self.w.deliver(dest, &m) {
            self.res.deliveries += 1;
            use std::hash::Hash;
            (id, dest).hash(&mut self.net.sched);
        }
    }

    /// hidden-commit rule: commit votes of the chosen view only reach the lucky node, and that node's
    /// new-view for the next view is lost, so that the others have to time out
    fn hidden_filter(&self, id: usize, dest: usize, from: usize) -> bool {
        if let Some((sv, hx, hy, ga)) = &self.steer {
            let ConsensusMsg::V2(ChonkyMsg::ReplicaCommit(vote)) = &self.net.msgs[id].msg else { return self.hidden_filter2(id, dest, from) };
            if vote.view.number.0 == *sv {
                if vote.proposal.payload == *hx && !ga.contains(&dest) {
                    return false;
                }
                if vote.proposal.payload == *hy && ga.contains(&dest) {
                    return false;
                }
            }
        }
        self.hidden_filter2(id, dest, from)
    }

    fn hidden_filter2(&self, id: usize, dest: usize, from: usize) -> bool {
        let Some((hv, lucky)) = self.hidden else { return true };
        let (k, v) = kind_of(&self.net.msgs[id]);
        // commit votes of the hidden view only reach the lucky node ...
        if k == 1 && v == hv && dest != lucky {
            return false;
        }
        // ... which is cut off from then on (nobody learns the certificate from it)
        if v > hv && (from == lucky || dest == lucky) {
            return false;
        }
        // in the following views proposals and votes get through only partially, so that
        // re-proposals are voted by some replicas only and high votes spread over several views
        if (k == 0 || k == 1) && v > hv && v <= hv + self.hidden_lossy_views {
            return vcommon::hash_of(&(id, dest, hv)) % 100 >= self.hidden_loss_pct;
        }
        true
    }

    async fn step(&mut self) {
        let r: f64 = self.rng.gen();
        let pol = self.pol.clone();
        let correct = self.w.correct();
        // planned crash reached its gate?
        if let Some((node, at)) = pol.crash_plan {
            if !self.crashed_once && self.w.at_gate(node) {
                self.crashed_once = true;
                self.w.kill(node).await;
                self.w.set_crash(node, None);
                self.res.crash_exercised = Some((at.index, self.node_view[node], if at.apply { "applied" } else { "not-applied" }));
                self.count("crashes_at_write_point");
                self.w.start(node).await;
                self.settle().await;
                if pol.adversarial_after_crash {
                    // re-deliver everything the node has ever been sent or could be sent for its recent views:
                    // the same proposal, the *other* proposal of an equivocating leader, stale votes
                    let v = self.node_view[node];
                    let ids: Vec<usize> = (0..self.net.msgs.len()).filter(|id| {
                        let (k, mv) = kind_of(&self.net.msgs[*id]);
                        k == 0 && mv + 1 >= v && mv <= v + 1
                    }).collect();
                    for id in ids {
                        self.do_deliver(id, node);
                    }
                    self.settle().await;
                }
                return;
            }
        }
        let mut acc = 0.0;
        let mut pick = |p: f64| {
            acc += p;
            r < acc
        };
        if pick(pol.p_byz) {
            let cur = self.cur_view();
            let laggard = correct.iter().copied().filter(|i| self.w.node(*i).alive).map(|i| (i, self.node_view[i])).min_by_key(|x| x.1);
            if let Some(cr) = byz::craft(&mut self.rng, &self.c, &mut self.know, &correct, cur, pol.extreme, laggard, pol.poisoned_laggard && self.laggard.is_some()) {
                self.count(&format!("byz_{}", cr.what));
                if let Some((v, hx, hy)) = cr.steer {
                    if self.rng.gen_bool(0.7) {
                        let mut ga = correct.clone();
                        ga.shuffle(&mut self.rng);
                        ga.truncate((correct.len() + 1) / 2);
                        self.steer = Some((v, hx, hy, ga));
                        self.count("equivocations_with_steered_votes");
                    }
                }
                for (m, dests) in cr.msgs {
                    let id = self.net.msgs.len();
                    self.net.msgs.push(m);
                    for d in dests {
                        self.net.inflight.push((id, d, usize::MAX));
                    }
                }
            }
        } else if pick(pol.p_replay) && !self.net.msgs.is_empty() {
            let id = self.rng.gen_range(0..self.net.msgs.len());
            let d = *correct.choose(&mut self.rng).unwrap();
            self.count("replays");
            self.do_deliver(id, d);
        } else if pick(pol.p_sync) {
            self.sync_some(pol.p_forged_sync).await;
        } else if pick(pol.p_crash) {
            let i = *correct.choose(&mut self.rng).unwrap();
            if self.w.node(i).alive {
                self.w.kill(i).await;
                self.count("random_kills");
                if self.rng.gen_bool(0.7) {
                    self.w.start(i).await;
                }
            } else if !self.down[i] || self.w.node(i).died.is_none() {
                self.w.start(i).await;
                self.count("restarts_after_downtime");
            }
        } else if pick(pol.p_time) || self.net.inflight.iter().all(|(_, d, f)| !self.reachable(*f, *d) || !self.w.node(*d).alive) {
            let ms = if self.rng.gen_bool(0.7) { VIEW_TIMEOUT_MS } else { self.rng.gen_range(1..VIEW_TIMEOUT_MS) };
            self.w.advance(ms);
            self.count("clock_advances");
        } else {
            // deliver (or lose) one in-flight message
            let cand: Vec<usize> = (0..self.net.inflight.len()).filter(|k| {
                let (_, d, f) = self.net.inflight[*k];
                self.reachable(f, d)
            }).collect();
            if !cand.is_empty() {
                let k = if pol.fifo { cand[0] } else { cand[self.rng.gen_range(0..cand.len().min(24))] };
                let (id, dest, from) = self.net.inflight.remove(k);
                if !self.hidden_filter(id, dest, from) {
                    self.count("hidden_commit_suppressed");
                    if let Some((hv, lucky)) = self.hidden {
                        let voter = self.net.msgs[id].key.clone();
                        let me = (0..self.c.n()).find(|i| self.c.sk[*i].public() == voter);
                        if let Some(from) = me {
                            if kind_of(&self.net.msgs[id]) == (1, hv) && from != lucky && !self.c.byz[from] && !self.hidden_restarted.contains(&from) && self.w.node(from).alive {
                                self.hidden_restarted.push(from);
                                if self.rng.gen_range(0..100) < self.hidden_restart_pct {
                                    self.w.kill(from).await;
                                    self.w.start(from).await;
                                    self.count("hidden_commit_voters_restarted_right_after_their_vote");
                                }
                            }
                        }
                    }
                } else if self.rng.gen_bool(pol.p_drop) {
                    self.count("dropped");
                } else {
                    self.do_deliver(id, dest);
                    if self.rng.gen_bool(pol.p_dup) {
                        self.do_deliver(id, dest);
                        self.count("duplicated");
                    }
                }
            }
        }
        self.settle().await;
    }

    async fn sync_some(&mut self, p_forged: f64) {
        let correct = self.w.correct();
        let i = *correct.choose(&mut self.rng).unwrap();
        if !self.w.node(i).alive || self.laggard.map(|l| l.0) == Some(i) {
            return;
        }
        let next = self.w.node(i).manager.as_ref().map(|m| m.queued().next().0).unwrap_or(0);
        if self.rng.gen_bool(p_forged) && self.rng.gen_bool(0.4) {
            // a genuine block ahead of the gap is offered and its call cancelled while it waits; the gap closes; then the same
            // certificate comes back with another payload - every submission has to be verified in full, whatever was seen before
            // (taken for the correct node that lags most)
            let i = *correct.iter().filter(|i| self.w.node(**i).alive).min_by_key(|i| self.w.height(**i)).unwrap_or(&i);
            let next = self.w.node(i).manager.as_ref().map(|m| m.queued().next().0).unwrap_or(0);
            let (a, b) = (self.mon.committed_blocks.get(&next).cloned(), self.mon.committed_blocks.get(&(next + 1)).cloned());
            self.count(if a.is_some() && b.is_some() { "parked_resubmission_attempts_with_two_blocks_of_lag" } else { "parked_resubmission_attempts_without_enough_lag" });
            if let (Some(a), Some(validator::Block::FinalV2(b))) = (a, b) {
                let _ = self.w.sync_block_ahead(i, validator::Block::FinalV2(b.clone())).await;
                let _ = self.w.sync_block(i, a).await;
                let mut fb = b.clone();
                fb.payload.0.push(1);
                let r = self.w.sync_block_ahead(i, validator::Block::FinalV2(fb)).await;
                self.count(if r.is_ok() { "forged_sync_accepted" } else { "forged_sync_refused" });
                self.count("forged_resubmissions_of_a_parked_block");
            }
            return;
        }
        if self.rng.gen_bool(p_forged) {
            // a peer offers a block that must be refused: tampered payload, or a certificate that is not a quorum
            if let Some(validator::Block::FinalV2(b)) = self.mon.committed_blocks.values().next().cloned() {
                let mut fb = b.clone();
                fb.justification.message.proposal.number = validator::BlockNumber(next);
                if self.rng.gen_bool(0.5) {
                    fb.payload.0.push(1);
                }
                let r = self.w.sync_block(i, validator::Block::FinalV2(fb)).await;
                self.count(if r.is_ok() { "forged_sync_accepted" } else { "forged_sync_refused" });
            }
            return;
        }
        if let Some(b) = self.mon.committed_blocks.get(&next).cloned() {
            let _ = self.w.sync_block(i, b).await;
            self.count("blocks_synced");
        }
    }

    /// Block sync for a node that fell several blocks behind, served by a peer that lies: for every missing block the genuine
    /// successor is offered first (it parks behind the gap and its call is cancelled), then the block itself, then the
    /// successor's certificate again with another payload. Every submission must be verified in full.
    async fn catch_up_with_forged_resubmissions(&mut self, v: usize) {
        if !self.w.node(v).alive {
            return;
        }
        for _ in 0..40 {
            let next = self.w.node(v).manager.as_ref().map(|m| m.queued().next().0).unwrap_or(0);
            let (a, b) = (self.mon.committed_blocks.get(&next).cloned(), self.mon.committed_blocks.get(&(next + 1)).cloned());
            let Some(a) = a else { break };
            if let Some(validator::Block::FinalV2(b)) = b {
                let _ = self.w.sync_block_ahead(v, validator::Block::FinalV2(b.clone())).await;
                let _ = self.w.sync_block(v, a).await;
                let mut fb = b.clone();
                fb.payload.0.push(1);
                let r = self.w.sync_block_ahead(v, validator::Block::FinalV2(fb)).await;
                self.count(if r.is_ok() { "forged_sync_accepted" } else { "forged_sync_refused" });
                self.count("forged_resubmissions_of_a_parked_block");
            } else {
                let _ = self.w.sync_block(v, a).await;
            }
            self.settle().await;
        }
    }

    fn repartition(&mut self) {
        let n = self.groups.len();
        let k = if self.pol.twins { 2 } else { self.rng.gen_range(1..=3u8) };
        for i in 0..n {
            self.groups[i] = self.rng.gen_range(0..k);
        }
        // the two real replicas of one Byzantine key live in different partitions
        for (j, t) in self.w.twins().into_iter().enumerate() {
            self.groups[t] = (j % 2) as u8;
        }
        if let Some((v, _)) = self.laggard {
            self.groups[v] = 200;
        }
        self.count("partition_changes");
    }

    /// The last act of the adversary before a heal: every correct replica times out in the same view p, receives the timeout
    /// votes of a few correct validators only (not enough for a certificate), then a Byzantine timeout vote for p followed by one
    /// for p+1; the rest of that round is lost. Retransmission after the heal must still complete the certificate of view p.
    async fn partial_timeout_round(&mut self) {
        let correct = self.w.correct();
        let byz: Vec<usize> = (0..self.c.n()).filter(|i| self.c.byz[*i]).collect();
        if byz.is_empty() {
            self.count("partial_timeout_round_skipped_no_byzantine_validator");
            return;
        }
        self.hidden = None;
        self.steer = None;
        self.laggard = None;
        for g in self.groups.iter_mut() {
            *g = 0;
        }
        for i in &correct {
            self.w.set_crash(*i, None);
            if !self.w.node(*i).alive {
                self.w.start(*i).await;
                self.down[*i] = false;
            }
        }
        for t in self.w.twins() {
            self.w.kill(t).await;
        }
        self.settle().await;
        // synchronise: a few rounds in which everything except proposals is delivered and then the clock advances, so that all
        // correct replicas time out together
        for _ in 0..4 {
            for _ in 0..8 {
                let batch = std::mem::take(&mut self.net.inflight);
                if batch.is_empty() {
                    break;
                }
                for (id, d, _) in batch {
                    if kind_of(&self.net.msgs[id]).0 != 0 {
                        self.do_deliver(id, d);
                    }
                }
                self.settle().await;
            }
            self.w.advance(VIEW_TIMEOUT_MS);
            self.settle().await;
            if self.alerted() || !self.res.died.is_empty() {
                return;
            }
        }
        let p = self.node_view[correct[0]];
        if correct.iter().any(|i| self.node_view[*i] != p) {
            self.count("partial_timeout_round_skipped_views_differ");
            return;
        }
        let batch = std::mem::take(&mut self.net.inflight);
        let mut tv: BTreeMap<usize, usize> = BTreeMap::new();
        for (id, _, from) in &batch {
            if kind_of(&self.net.msgs[*id]) == (2, p) && *from < self.c.n() {
                tv.insert(*from, *id);
            }
        }
        if tv.len() < correct.len() {
            self.count("partial_timeout_round_skipped_not_everybody_timed_out");
            return;
        }
        let mut hit = 0;
        for r in &correct {
            let mut s: Vec<usize> = correct.clone();
            s.shuffle(&mut self.rng);
            let k = self.rng.gen_range(1..=s.len().max(2) - 1);
            s.truncate(k);
            let wsum = |v: &[usize]| v.iter().map(|i| self.c.w[*i] as u128).sum::<u128>();
            while !s.is_empty() && wsum(&s) + self.c.byz_weight() >= self.c.quorum() {
                s.pop();
            }
            if s.is_empty() {
                continue;
            }
            for x in &s {
                self.do_deliver(tv[x], *r);
            }
            self.settle().await;
            let a = *byz.choose(&mut self.rng).unwrap();
            for v in [p, p + 1] {
                let m = byz::s_timeout(&self.c.sk[a], validator::v2::ReplicaTimeout { view: self.c.view(v), high_vote: None, high_qc: None });
                let id = self.net.msgs.len();
                self.net.msgs.push(m);
                self.do_deliver(id, *r);
                self.settle().await;
            }
            hit += 1;
        }
        if hit == correct.len() {
            self.count("partial_timeout_rounds_with_a_byzantine_vote_for_the_next_view");
        } else {
            self.count("partial_timeout_rounds_incomplete");
        }
    }

    /// C06: fair synchronous suffix. Returns the number of view timeouts needed until every correct node
    /// stores a block that nobody had before the suffix started, or an alert.
    async fn heal(&mut self) {
        let correct = self.w.correct();
        self.hidden = None;
        self.steer = None;
        if let (true, Some((t, _))) = (self.pol.poisoned_laggard, self.laggard) {
            // the last word of the adversary before the network heals: the isolated replica learns the NEWEST commit certificate
            // inside a timeout certificate of the oldest view it still accepts, i.e. without leaving its old view
            let tv = self.node_view[t];
            let olds: Vec<u64> = self.know.timeouts.range(tv..).map(|x| *x.0).take(3).collect();
            for old in olds {
                if let Some(m) = byz::poison_new_view(&self.c, &mut self.know, old) {
                    let id = self.net.msgs.len();
                    self.net.msgs.push(m);
                    self.do_deliver(id, t);
                    self.settle().await;
                    self.count("laggards_poisoned_right_before_the_heal");
                    break;
                }
            }
        }
        self.laggard = None;
        if self.pol.byz_silent_in_suffix {
            for t in self.w.twins() {
                self.w.kill(t).await;
            }
        }
        if self.pol.poisoned_laggard {
            // whatever was sent to the isolated replica during the partition is lost, not delayed
            self.net.inflight.clear();
            self.count("heals_after_a_poisoned_laggard_prefix");
        }
        for g in self.groups.iter_mut() {
            *g = 0;
        }
        for i in &correct {
            self.w.set_crash(*i, None);
            if !self.w.node(*i).alive {
                if self.w.node(*i).died.is_some() && self.down[*i] {
                    // died on its own: a crashed node is restarted like any other
                }
                self.w.start(*i).await;
                self.down[*i] = false;
            }
        }
        self.settle().await;
        let h0 = correct.iter().map(|i| self.w.height(*i)).max().unwrap();
        let start_view = self.cur_view();
        // longest run of consecutive views led by a Byzantine (silent) validator from here on
        let mut worst = 0;
        let mut run = 0;
        for v in start_view..start_view + 60 {
            if self.c.byz[self.c.leader(v)] {
                run += 1;
                worst = worst.max(run);
            } else {
                run = 0;
            }
        }
        if worst >= 12 {
            // (almost) every upcoming leader is faulty, e.g. no correct validator is leader-eligible:
            // the property only promises progress in views with correct leaders
            self.count("suffix_skipped_no_correct_leader_in_sight");
            return;
        }
        let bound = 8 + 3 * worst as u64;
        let mut timeouts = 0u64;
        let mut last_sig: Option<u64> = None;
        loop {
            // one fair round: deliver everything (FIFO, no loss) until nothing is in flight, syncing blocks
            let mut guard = 0;
            loop {
                let batch = std::mem::take(&mut self.net.inflight);
                for (id, d, _) in batch {
                    self.do_deliver(id, d);
                }
                self.settle().await;
                // block sync until stores stop changing
                let mut changed = true;
                while changed {
                    changed = false;
                    for i in &correct {
                        let Some(m) = self.w.node(*i).manager.clone() else { continue };
                        let next = m.queued().next().0;
                        if let Some(b) = self.mon.committed_blocks.get(&next).cloned() {
                            if self.w.sync_block(*i, b).await.is_ok() {
                                changed = true;
                            }
                        }
                    }
                    self.settle().await;
                }
                if !self.pol.byz_silent_in_suffix && self.rng.gen_bool(0.3) {
                    let cur = self.cur_view();
                    if let Some(cr) = byz::craft(&mut self.rng, &self.c, &mut self.know, &correct, cur, false, None, false) {
                        for (m, dests) in cr.msgs {
                            let id = self.net.msgs.len();
                            self.net.msgs.push(m);
                            for d in dests {
                                self.net.inflight.push((id, d, usize::MAX));
                            }
                        }
                    }
                }
                guard += 1;
                if self.net.inflight.is_empty() || guard > 200 || correct.iter().all(|i| self.w.height(*i) > h0) {
                    break;
                }
                if !self.res.died.is_empty() || self.alerted() {
                    return;
                }
            }
            if !self.res.died.is_empty() || self.alerted() {
                return;
            }
            if correct.iter().all(|i| self.w.height(*i) > h0) {
                self.res.suffix_timeouts = Some(timeouts);
                return;
            }
            // fixed point: identical global state after a full fair round + timeout = deadlock in virtual time
            let sig = vcommon::hash_of(&(
                correct.iter().map(|i| (self.node_view[*i], self.w.height(*i))).collect::<Vec<_>>(),
                self.mon.distinct_states.len(),
            ));
            if last_sig == Some(sig) && timeouts >= 3 {
                self.mon.alerts.push(Alert { prop: "C06", signature: "deadlock-fixed-point||".into(), detail: format!("after the network healed the global state stopped changing: views {:?}, heights {:?}, h0 {h0}", correct.iter().map(|i| self.node_view[*i]).collect::<Vec<_>>(), correct.iter().map(|i| self.w.height(*i)).collect::<Vec<_>>()) });
                return;
            }
            last_sig = Some(sig);
            if timeouts >= bound {
                self.mon.alerts.push(Alert { prop: "C06", signature: "no-progress-within-bound||".into(), detail: format!("no new block on every correct node within {bound} view timeouts of a fair synchronous suffix (longest faulty-leader run {worst}); views {:?} heights {:?} h0 {h0}", correct.iter().map(|i| self.node_view[*i]).collect::<Vec<_>>(), correct.iter().map(|i| self.w.height(*i)).collect::<Vec<_>>()) });
                return;
            }
            self.w.advance(VIEW_TIMEOUT_MS);
            timeouts += 1;
            self.settle().await;
        }
    }

    pub async fn run(mut self) -> CaseResult {
        let correct = self.w.correct();
        for i in &correct {
            self.w.start(*i).await;
        }
        for t in self.w.twins() {
            self.w.start(t).await;
            self.count("twin_replicas_started");
        }
        if let Some((node, at)) = self.pol.crash_plan {
            self.w.set_crash(node, Some(at));
        }
        if self.pol.hidden_commit {
            let hv = self.rng.gen_range(1..8);
            self.hidden = Some((hv, *correct.choose(&mut self.rng).unwrap()));
            self.hidden_lossy_views = self.rng.gen_range(0..5);
            self.hidden_loss_pct = self.rng.gen_range(20..70);
            self.hidden_restart_pct = [0, 0, 60, 100][self.rng.gen_range(0..4)];
        }
        if self.pol.laggard || self.pol.poisoned_laggard {
            let wsum = |v: &[usize]| v.iter().map(|i| self.c.w[*i] as u128).sum::<u128>();
            let byzw: u128 = (0..self.c.n()).filter(|i| self.c.byz[*i]).map(|i| self.c.w[i] as u128).sum();
            let cands: Vec<usize> = correct
                .iter()
                .copied()
                .filter(|v| {
                    let rest = wsum(&correct) - self.c.w[*v] as u128;
                    if self.pol.poisoned_laggard { rest < self.c.quorum() && rest + byzw >= self.c.quorum() } else { rest >= self.c.quorum() }
                })
                .collect();
            if let Some(v) = cands.choose(&mut self.rng) {
                self.laggard = Some((*v, self.pol.steps / 2));
                self.groups[*v] = 200;
                self.count("cases_with_an_isolated_laggard");
            }
        }
        self.settle().await;
        for s in 0..self.pol.steps {
            if self.pol.partition_period > 0 && s % self.pol.partition_period == 0 {
                self.repartition();
            }
            if let Some((v, until)) = self.laggard {
                if s == until && !self.pol.poisoned_laggard {
                    self.laggard = None;
                    self.groups[v] = self.groups[correct.iter().copied().find(|i| *i != v).unwrap_or(v)];
                    self.catch_up_with_forged_resubmissions(v).await;
                }
            }
            self.step().await;
            if self.alerted() {
                break;
            }
            if self.cur_view() >= self.pol.max_views {
                break;
            }
            // cap the in-flight backlog (old undeliverable traffic is lost)
            if self.net.inflight.len() > 4000 {
                self.net.inflight.drain(..2000);
                self.count("backlog_truncated");
            }
        }
        if self.pol.partial_timeout_round && !self.alerted() {
            self.partial_timeout_round().await;
        }
        if self.pol.heal && !self.alerted() {
            self.heal().await;
        }
        self.collect();
        for i in &correct {
            self.res.writes_of.insert(*i, self.w.node(*i).shared.writes.load(std::sync::atomic::Ordering::SeqCst));
        }
        self.w.shutdown().await;
        self.collect();
        let mut res = self.res;
        res.alerts = std::mem::take(&mut self.mon.alerts);
        for (k, v) in &self.mon.counters {
            *res.counters.entry(k.clone()).or_default() += v;
        }
        res.maxima = self.mon.maxima.clone();
        res.commits = self.mon.chain.len() as u64;
        res.max_view = self.mon.max_view.min(1 << 40);
        use std::hash::Hasher;
        res.schedule_hash = self.net.sched.finish();
        res.distinct_states = std::mem::take(&mut self.mon.distinct_states);
        res
    }
}
