//! Online monitors over the event log of a simulation case (C01, C02b, C03, C05, C16b).
use std::{
    collections::{BTreeMap, BTreeSet, HashSet},
    sync::Arc,
};

use zksync_consensus_bft::verif::Snapshot;
use zksync_consensus_roles::validator::{
    self,
    v2::{ChonkyMsg, ChonkyV2State, CommitQC, Phase, ProposalJustification, ReplicaCommit, TimeoutQC},
    ConsensusMsg, ReplicaState,
};

use crate::{
    log::{Ev, Log, StepKind},
    world::Committee,
};

#[derive(Clone, Debug)]
pub struct Alert {
    pub prop: &'static str,
    pub signature: String,
    pub detail: String,
}

#[derive(Default)]
struct KeyHist {
    commit_by_view: BTreeMap<u64, ReplicaCommit>,
    max_timeout_view: Option<u64>,
    last_vote_view: Option<u64>,
}

#[derive(Clone, Copy, Default, PartialEq, Eq, PartialOrd, Ord, Debug)]
struct Triple {
    view: u64,
    cqc: Option<u64>,
    tqc: Option<u64>,
}

fn triple_of_state(s: &ChonkyV2State) -> Triple {
    Triple { view: s.view_number.0, cqc: s.high_commit_qc.as_ref().map(|q| q.view().number.0), tqc: s.high_timeout_qc.as_ref().map(|q| q.view.number.0) }
}
fn triple_of_snap(s: &Snapshot) -> Triple {
    Triple { view: s.view.0, cqc: s.high_commit_qc.as_ref().map(|q| q.view().number.0), tqc: s.high_timeout_qc.as_ref().map(|q| q.view.number.0) }
}

pub struct Monitors {
    c: Arc<Committee>,
    cursor: usize,
    pub alerts: Vec<Alert>,
    pub counters: BTreeMap<String, u64>,
    pub maxima: BTreeMap<String, u64>,
    // C01
    pub chain: BTreeMap<u64, (validator::PayloadHash, usize)>,
    pub committed_blocks: BTreeMap<u64, validator::Block>,
    // C02b: (number, hash) -> view -> set of correct voters
    votes: BTreeMap<(u64, validator::PayloadHash), BTreeMap<u64, BTreeSet<usize>>>,
    /// number -> hash -> first view in which a commit quorum was possible
    potential: BTreeMap<u64, BTreeMap<validator::PayloadHash, u64>>,
    // C03
    keys: Vec<KeyHist>,
    // C05
    floor: Vec<Option<Triple>>,
    snap_floor: Vec<Option<Triple>>,
    verified_qcs: HashSet<u64>,
    pub distinct_states: HashSet<u64>,
    pub max_view: u64,
    /// last snapshot per node (pre-state of the next step)
    last_snap: Vec<Option<Snapshot>>,
    /// per node: latest view for which a commit / timeout vote of each validator was accepted (this incarnation)
    seen_commit: Vec<BTreeMap<validator::PublicKey, u64>>,
    seen_timeout: Vec<BTreeMap<validator::PublicKey, u64>>,
    /// per node: block height known to be stored (from QueueBlock events)
    stored_next: Vec<u64>,
}

impl Monitors {
    pub fn new(c: Arc<Committee>) -> Self {
        let n = c.n();
        Monitors {
            c,
            cursor: 0,
            alerts: vec![],
            counters: BTreeMap::new(),
            maxima: BTreeMap::new(),
            chain: BTreeMap::new(),
            committed_blocks: BTreeMap::new(),
            votes: BTreeMap::new(),
            potential: BTreeMap::new(),
            keys: (0..n).map(|_| KeyHist::default()).collect(),
            floor: vec![None; n],
            snap_floor: vec![None; n],
            verified_qcs: HashSet::new(),
            distinct_states: HashSet::new(),
            max_view: 0,
            last_snap: vec![None; n],
            seen_commit: vec![BTreeMap::new(); n],
            seen_timeout: vec![BTreeMap::new(); n],
            stored_next: vec![0; n],
        }
    }

    fn count(&mut self, k: &str) {
        *self.counters.entry(k.to_string()).or_default() += 1;
    }
    fn max(&mut self, k: &str, v: u64) {
        let e = self.maxima.entry(k.to_string()).or_default();
        if v > *e {
            *e = v;
        }
    }
    fn alert(&mut self, prop: &'static str, sig: impl Into<String>, detail: impl Into<String>) {
        let signature = sig.into();
        // keep at most 3 alerts per signature (a broken rule usually fires on every step)
        if self.alerts.iter().filter(|a| a.signature == signature).count() >= 3 {
            return;
        }
        self.alerts.push(Alert { prop, signature, detail: detail.into() });
    }

    /// processes the events appended since the last call
    pub fn process(&mut self, log: &Log) {
        let evs = log.since(self.cursor);
        self.cursor += evs.len();
        for e in evs {
            // twins (real replicas under Byzantine keys, indices beyond the committee) are never judged
            let who = match &e {
                Ev::QueueBlock { node, .. } | Ev::Out { node, .. } | Ev::SetState { node, .. } | Ev::Step { node, .. } | Ev::Restart { node, .. } | Ev::InboundPanic { node, .. } => *node,
            };
            if who >= self.c.n() {
                self.count("events_of_twin_replicas_not_judged");
                continue;
            }
            match e {
                Ev::QueueBlock { node, block, want, .. } => self.on_queue_block(node, block, want),
                Ev::Out { node, msg, durable, .. } => self.on_out(node, msg, durable),
                Ev::SetState { node, state, .. } => self.on_set_state(node, state),
                Ev::Step { node, kind, snap, .. } => self.on_step(node, kind, snap),
                Ev::Restart { node, durable, .. } => self.on_restart(node, durable),
                Ev::InboundPanic { node, location, message } => {
                    self.count("inbound_queue_panics");
                    self.alert("C10", format!("panic|{location}|inbound-queue"), format!("handing a well-signed message to node {node}'s inbound queue panicked: {message}"));
                }
            }
        }
    }

    // ---------------------------------------------------------------------------------- C01

    fn on_queue_block(&mut self, node: usize, block: validator::Block, want: validator::BlockNumber) {
        self.count("blocks_handed_to_storage");
        let n = block.number().0;
        let validator::Block::FinalV2(fb) = &block else {
            self.alert("C01", "pregenesis-block-stored||", format!("node {node} stored a pre-genesis block {n}"));
            return;
        };
        let h = fb.header().payload;
        if n > want.0 {
            self.alert("C01", "gap-in-committed-sequence||", format!("node {node} handed block {n} to storage while its durable head expects {}", want.0));
        }
        if let Err(e) = fb.verify(self.c.genesis_hash(), validator::EpochNumber(0), &self.c.schedule) {
            self.alert("C01", "unverified-block-committed||", format!("node {node} committed block {n} that does not verify: {e:#}"));
        }
        match self.chain.get(&n) {
            Some((h0, first)) if *h0 != h => {
                let (h0, first) = (*h0, *first);
                self.alert("C01", "conflicting-commit||", format!("block {n}: node {first} committed {h0:?}, node {node} committed {h:?} (certificate view {})", fb.justification.view().number.0));
            }
            Some(_) => {}
            None => {
                self.chain.insert(n, (h, node));
                self.committed_blocks.insert(n, block.clone());
                self.count("distinct_blocks_committed");
            }
        }
        if n == want.0 {
            self.count("blocks_appended");
            self.stored_next[node] = n.saturating_add(1);
        }
    }

    // ---------------------------------------------------------------------------------- C03 / C02b / C05(3)

    fn qc_ok_commit(&mut self, qc: &CommitQC) -> bool {
        let key = vcommon::hash_bytes(&zksync_protobuf::encode(qc));
        if self.verified_qcs.contains(&key) {
            return true;
        }
        let ok = qc.verify(self.c.genesis_hash(), validator::EpochNumber(0), &self.c.schedule).is_ok();
        if ok {
            self.verified_qcs.insert(key);
        }
        ok
    }
    fn qc_ok_timeout(&mut self, qc: &TimeoutQC) -> bool {
        let key = vcommon::hash_bytes(&zksync_protobuf::encode(qc)) ^ 0x7171;
        if self.verified_qcs.contains(&key) {
            return true;
        }
        let ok = qc.verify(self.c.genesis_hash(), validator::EpochNumber(0), &self.c.schedule).is_ok();
        if ok {
            self.verified_qcs.insert(key);
        }
        ok
    }
    fn just_ok(&mut self, j: &ProposalJustification) -> bool {
        match j {
            ProposalJustification::Commit(q) => self.qc_ok_commit(q),
            ProposalJustification::Timeout(q) => self.qc_ok_timeout(q),
        }
    }

    fn expected_justification(s: &ChonkyV2State) -> Option<ProposalJustification> {
        let cv = s.high_commit_qc.as_ref().map(|q| q.view().number.0);
        let tv = s.high_timeout_qc.as_ref().map(|q| q.view.number.0);
        if cv.is_none() && tv.is_none() {
            return None;
        }
        if cv >= tv {
            Some(ProposalJustification::Commit(s.high_commit_qc.clone().unwrap()))
        } else {
            Some(ProposalJustification::Timeout(s.high_timeout_qc.clone().unwrap()))
        }
    }

    fn on_out(&mut self, node: usize, msg: validator::Signed<ConsensusMsg>, durable: ReplicaState) {
        let ReplicaState::V2(d) = durable;
        let ConsensusMsg::V2(m) = &msg.msg;
        if msg.key != self.c.sk[node].public() {
            self.alert("C03", "foreign-key-on-outbound||", format!("node {node} emitted a message signed by another key"));
            return;
        }
        if msg.verify().is_err() {
            self.alert("C05", "emitted-bad-signature||", format!("node {node} emitted a message whose signature does not verify"));
        }
        match m {
            ChonkyMsg::ReplicaCommit(vote) => {
                self.count("commit_votes_checked");
                let v = vote.view.number.0;
                let kh = &mut self.keys[node];
                let mut al: Vec<(String, String)> = vec![];
                if let Some(prev) = kh.commit_by_view.get(&v) {
                    if prev != vote {
                        al.push(("double-vote||".into(), format!("validator {node} signed two different commit votes for view {v}: {:?} and {:?}", prev.proposal, vote.proposal)));
                    }
                } else {
                    kh.commit_by_view.insert(v, vote.clone());
                }
                if let Some(t) = kh.max_timeout_view {
                    if v <= t {
                        al.push(("commit-after-timeout||".into(), format!("validator {node} signed a commit vote for view {v} after a timeout vote for view {t}")));
                    }
                }
                if let Some(l) = kh.last_vote_view {
                    if v < l {
                        al.push(("vote-view-went-backwards||".into(), format!("validator {node} signed a commit vote for view {v} after a vote for view {l}")));
                    }
                }
                kh.last_vote_view = Some(kh.last_vote_view.map_or(v, |l| l.max(v)));
                // persist-before-send
                let covered = d.view_number.0 > v || (d.view_number.0 == v && d.phase != Phase::Prepare && d.high_vote.as_ref() == Some(vote));
                if !covered {
                    al.push(("vote-left-node-before-durable||commit".into(), format!("validator {node}: commit vote for view {v} was on the wire while the durable state was view {} phase {:?} high_vote {:?}", d.view_number.0, d.phase, d.high_vote.as_ref().map(|h| (h.view.number.0, h.proposal.number.0)))));
                }
                for (s, dt) in al {
                    self.alert("C03", s, dt);
                }
                // C02b bookkeeping
                let set = self.votes.entry((vote.proposal.number.0, vote.proposal.payload)).or_default().entry(v).or_default();
                set.insert(node);
                let w: u128 = set.iter().map(|i| self.c.w[*i] as u128).sum::<u128>() + self.c.byz_weight();
                let (num, hash) = (vote.proposal.number.0, vote.proposal.payload);
                // a later vote for a number that already has a potential certificate must be for the same payload
                if let Some(pots) = self.potential.get(&num) {
                    for (h2, v2) in pots.clone() {
                        if h2 != hash && v > v2 {
                            self.alert("C02", "vote-against-potential-certificate||", format!("validator {node} voted in view {v} for block {num} payload {hash:?} although payload {h2:?} could have been certified in view {v2}"));
                        }
                    }
                }
                if w >= self.c.quorum() {
                    let e = self.potential.entry(num).or_default();
                    let mut newly = false;
                    let mut conflict = None;
                    if !e.contains_key(&hash) {
                        e.insert(hash, v);
                        newly = true;
                        if e.len() > 1 {
                            conflict = Some(format!("block {num} has {} payloads that could each gather a commit quorum (correct voters + faulty weight): {:?}", e.len(), e));
                        }
                    }
                    if newly {
                        self.count("potential_certificates");
                    }
                    if let Some(d2) = conflict {
                        self.alert("C02", "two-potential-certificates||", d2);
                    }
                }
            }
            ChonkyMsg::ReplicaTimeout(t) => {
                self.count("timeout_votes_checked");
                let v = t.view.number.0;
                let kh = &mut self.keys[node];
                let mut al: Vec<(String, String)> = vec![];
                if let Some(l) = kh.last_vote_view {
                    if v < l {
                        al.push(("vote-view-went-backwards||".into(), format!("validator {node} signed a timeout vote for view {v} after a vote for view {l}")));
                    }
                }
                kh.last_vote_view = Some(kh.last_vote_view.map_or(v, |l| l.max(v)));
                kh.max_timeout_view = Some(kh.max_timeout_view.map_or(v, |l| l.max(v)));
                let covered = d.view_number.0 > v || (d.view_number.0 == v && d.phase == Phase::Timeout);
                if !covered {
                    al.push(("vote-left-node-before-durable||timeout".into(), format!("validator {node}: timeout vote for view {v} was on the wire while the durable state was view {} phase {:?}", d.view_number.0, d.phase)));
                }
                for (s, dt) in al {
                    self.alert("C03", s, dt);
                }
                // C05(3): the timeout vote carries the replica's high vote / high commit certificate
                if d.view_number.0 == v {
                    if t.high_vote != d.high_vote || t.high_qc != d.high_commit_qc {
                        self.alert("C05", "timeout-vote-not-from-state||", format!("node {node}: timeout vote for view {v} does not carry the recorded high vote / high certificate"));
                    }
                }
                if let Some(q) = &t.high_qc {
                    if !self.qc_ok_commit(q) {
                        self.alert("C05", "emitted-invalid-certificate||timeout", format!("node {node}: timeout vote for view {v} carries a certificate that does not verify"));
                    }
                }
            }
            ChonkyMsg::ReplicaNewView(nv) => {
                self.count("new_views_checked");
                let v = nv.view().number.0;
                if d.view_number.0 < v {
                    self.alert("C03", "vote-left-node-before-durable||new-view", format!("validator {node}: new-view for view {v} was on the wire while the durable view was {}", d.view_number.0));
                }
                if !self.just_ok(&nv.justification) {
                    self.alert("C05", "emitted-invalid-certificate||new-view", format!("node {node}: new-view for view {v} carries a justification that does not verify"));
                }
                if d.view_number.0 == v {
                    if Self::expected_justification(&d).as_ref() != Some(&nv.justification) {
                        self.alert("C05", "new-view-not-highest-certificate||", format!("node {node}: new-view for view {v} does not carry the highest certificate held (commit preferred on a tie)"));
                    }
                }
            }
            ChonkyMsg::LeaderProposal(p) => {
                self.count("proposals_checked");
                let v = p.view().number.0;
                if !self.just_ok(&p.justification) {
                    self.alert("C05", "emitted-invalid-certificate||proposal", format!("node {node}: proposal for view {v} carries a justification that does not verify"));
                }
                if self.c.leader(v) != node {
                    self.alert("C05", "proposal-by-non-leader||", format!("node {node} proposed in view {v} whose leader is {}", self.c.leader(v)));
                }
                let (num, implied) = p.justification.get_implied_block(&self.c.schedule, self.c.genesis.first_block);
                if implied.is_some() != p.proposal_payload.is_none() {
                    self.alert("C05", "proposal-payload-rule||", format!("node {node}: proposal for view {v} block {} has payload={} but re-proposal required={}", num.0, p.proposal_payload.is_some(), implied.is_some()));
                }
            }
        }
    }

    // ---------------------------------------------------------------------------------- C05 state

    fn check_state_invariant(&mut self, node: usize, t: Triple, whence: &str) {
        // "a replica moves to a new view only on a valid commit or timeout certificate for the preceding view": a replica in view
        // v > 0 holds the timeout certificate of v-1, or a commit certificate of v-1 or newer (certificates only grow, and a
        // Byzantine but valid message - a timeout certificate of v-1 whose votes carry a newer commit certificate - can hand a
        // replica a commit certificate of its current or a later view without moving it; the honest-run invariant
        // view == max(certificates) + 1 is stricter than the statement and was a false alarm under that input)
        let ok = match t.view.checked_sub(1) {
            None => true,
            Some(p) => t.tqc == Some(p) || t.cqc.is_some_and(|c| c >= p),
        };
        if let Some(m) = t.cqc.max(t.tqc) {
            if m >= t.view {
                self.count("states_holding_a_certificate_of_the_current_or_a_later_view");
            }
        }
        if !ok {
            self.alert("C05", format!("view-not-justified||{whence}"), format!("node {node}: view {} with highest commit certificate {:?} and timeout certificate {:?} ({whence})", t.view, t.cqc, t.tqc));
        }
    }

    fn check_monotone(&mut self, node: usize, prev: Triple, cur: Triple, whence: &str) {
        if cur.view < prev.view {
            self.alert("C05", format!("view-decreased||{whence}"), format!("node {node}: view went from {} to {} ({whence})", prev.view, cur.view));
        }
        if cur.cqc < prev.cqc {
            self.alert("C05", format!("high-commit-qc-decreased||{whence}"), format!("node {node}: highest commit certificate went from {:?} to {:?} ({whence})", prev.cqc, cur.cqc));
        }
        if cur.tqc < prev.tqc {
            self.alert("C05", format!("high-timeout-qc-decreased||{whence}"), format!("node {node}: highest timeout certificate went from {:?} to {:?} ({whence})", prev.tqc, cur.tqc));
        }
    }

    fn on_set_state(&mut self, node: usize, state: ReplicaState) {
        let ReplicaState::V2(s) = state;
        self.count("durable_states_checked");
        let t = triple_of_state(&s);
        self.check_state_invariant(node, t, "durable");
        if let Some(prev) = self.floor[node] {
            self.check_monotone(node, prev, t, "durable");
        }
        self.floor[node] = Some(t);
        if let Some(q) = &s.high_commit_qc {
            if !self.qc_ok_commit(q) {
                self.alert("C05", "holds-invalid-certificate||commit", format!("node {node} persisted a commit certificate that does not verify"));
            }
        }
        if let Some(q) = &s.high_timeout_qc {
            if !self.qc_ok_timeout(q) {
                self.alert("C05", "holds-invalid-certificate||timeout", format!("node {node} persisted a timeout certificate that does not verify"));
            }
        }
        self.max_view = self.max_view.max(t.view);
        self.distinct_states.insert(vcommon::hash_of(&(node, t.view, s.phase as u8, t.cqc, t.tqc, s.high_vote.as_ref().map(|h| (h.view.number.0, h.proposal.number.0)))));
    }

    fn on_restart(&mut self, node: usize, durable: ReplicaState) {
        let ReplicaState::V2(s) = durable;
        self.count("restarts");
        // a write that was not applied does not bind the next incarnation: the floor is the durable state
        self.floor[node] = Some(triple_of_state(&s));
        self.snap_floor[node] = None;
        self.last_snap[node] = None;
        self.seen_commit[node].clear();
        self.seen_timeout[node].clear();
    }

    /// C05(4), reaction oracle: accept/reject and the resulting state prescribed by spec/informal-spec/replica.rs
    /// (with the implementation's documented refinements), computed from the pre-state snapshot.
    /// Returns nothing; mismatches are alerts. `None` expectation = the spec leaves it to timing (e.g. a proposal whose
    /// previous block is not stored yet is accepted iff the block arrives before the view deadline).
    fn check_reaction(&mut self, node: usize, pre: &Snapshot, msg: &validator::Signed<ConsensusMsg>, accepted: bool, post: &Snapshot) {
        let ConsensusMsg::V2(m) = &msg.msg;
        let cur = pre.view.0;
        let member = self.c.index_of(&msg.key).is_some();
        let sig_ok = msg.verify().is_ok();
        let g = self.c.genesis_hash();
        let e0 = validator::EpochNumber(0);
        let (class, expect): (&str, Option<bool>) = match m {
            ChonkyMsg::LeaderProposal(p) => {
                let v = p.view().number.0;
                if v < cur || (v == cur && pre.phase != Phase::Prepare) {
                    ("proposal/old", Some(false))
                } else if self.c.schedule.view_leader(validator::ViewNumber(v)) != msg.key {
                    ("proposal/wrong-leader", Some(false))
                } else if !sig_ok {
                    ("proposal/bad-signature", Some(false))
                } else if !self.just_ok(&p.justification) || p.view().genesis != g || p.view().epoch != e0 {
                    ("proposal/invalid-justification", Some(false))
                } else {
                    let (num, implied) = p.justification.get_implied_block(&self.c.schedule, self.c.genesis.first_block);
                    match (implied, &p.proposal_payload) {
                        (Some(_), Some(_)) => ("proposal/reproposal-with-payload", Some(false)),
                        (Some(_), None) => ("proposal/valid-reproposal", Some(true)),
                        (None, None) => ("proposal/missing-payload", Some(false)),
                        (None, Some(pl)) => {
                            if pl.len() > crate::world::MAX_PAYLOAD {
                                ("proposal/oversized", Some(false))
                            } else if num.0 > self.stored_next[node].max(self.c.genesis.first_block.0) {
                                // previous block not stored when the step began: accepted iff it arrives before the view deadline
                                ("proposal/previous-block-missing", None)
                            } else if crate::engine::is_bad_payload(pl) {
                                ("proposal/payload-refused-by-execution", Some(false))
                            } else {
                                ("proposal/valid-new-block", Some(true))
                            }
                        }
                    }
                }
            }
            ChonkyMsg::ReplicaCommit(v) => {
                let view = v.view.number.0;
                if !member {
                    ("commit/non-member", Some(false))
                } else if view < cur {
                    ("commit/old", Some(false))
                } else if self.seen_commit[node].get(&msg.key).map_or(false, |l| *l >= view) {
                    ("commit/duplicate-or-stale-for-signer", Some(false))
                } else if !sig_ok {
                    ("commit/bad-signature", Some(false))
                } else if v.view.genesis != g || v.view.epoch != e0 {
                    ("commit/other-chain-or-epoch", Some(false))
                } else {
                    ("commit/valid", Some(true))
                }
            }
            ChonkyMsg::ReplicaTimeout(t) => {
                let view = t.view.number.0;
                if !member {
                    ("timeout/non-member", Some(false))
                } else if view < cur {
                    ("timeout/old", Some(false))
                } else if self.seen_timeout[node].get(&msg.key).map_or(false, |l| *l >= view) {
                    ("timeout/duplicate-or-stale-for-signer", Some(false))
                } else if !sig_ok {
                    ("timeout/bad-signature", Some(false))
                } else if t.verify(g, e0, &self.c.schedule).is_err() {
                    ("timeout/invalid-content", Some(false))
                } else {
                    ("timeout/valid", Some(true))
                }
            }
            ChonkyMsg::ReplicaNewView(nv) => {
                let view = nv.view().number.0;
                if view < cur {
                    ("new-view/old", Some(false))
                } else if view == cur && self.c.schedule.view_leader(validator::ViewNumber(cur)) != msg.key {
                    ("new-view/current-view-not-from-leader", Some(false))
                } else if !member {
                    ("new-view/non-member", Some(false))
                } else if !sig_ok {
                    ("new-view/bad-signature", Some(false))
                } else if !self.just_ok(&nv.justification) || nv.view().genesis != g || nv.view().epoch != e0 {
                    ("new-view/invalid-justification", Some(false))
                } else if view == cur {
                    ("new-view/current-view-from-leader", Some(true))
                } else {
                    ("new-view/future-valid", Some(true))
                }
            }
        };
        self.count(&format!("reaction_{}_{}_{}", format!("{:?}", pre.phase).to_lowercase(), class, if accepted { "accepted" } else { "rejected" }));
        self.count("reactions_checked");
        if let Some(want) = expect {
            if want != accepted {
                self.alert("C05", format!("reaction-differs-from-spec||{class}"), format!("node {node} in view {cur} phase {:?} {} a message of class {class} (signer {:?}); the specification prescribes {}", pre.phase, if accepted { "ACCEPTED" } else { "REJECTED" }, self.c.index_of(&msg.key), if want { "accept" } else { "reject" }));
            }
        }
        // resulting state
        let unchanged = pre.view == post.view && pre.phase == post.phase && pre.high_vote == post.high_vote
            && pre.high_commit_qc.as_ref().map(|q| q.view().number) == post.high_commit_qc.as_ref().map(|q| q.view().number)
            && pre.high_timeout_qc.as_ref().map(|q| q.view.number) == post.high_timeout_qc.as_ref().map(|q| q.view.number);
        if !accepted && !unchanged {
            self.alert("C05", format!("rejected-message-changed-state||{class}"), format!("node {node}: a rejected message of class {class} changed view/phase/high vote/certificates: {:?}/{:?} -> {:?}/{:?}", pre.view, pre.phase, post.view, post.phase));
        }
        if accepted {
            // the specification processes the justification of every accepted proposal / new-view in full: the highest commit
            // certificate becomes max(held, the certificate in the justification - for a timeout certificate its embedded
            // highest commit certificate), the highest timeout certificate max(held, the justification) - also when the
            // timeout certificate itself is not newer than the one held
            let just = match m {
                ChonkyMsg::LeaderProposal(p) => Some(&p.justification),
                ChonkyMsg::ReplicaNewView(nv) => Some(&nv.justification),
                _ => None,
            };
            if let Some(j) = just {
                let (jc, jt) = match j {
                    ProposalJustification::Commit(q) => (Some(q.view().number.0), None),
                    ProposalJustification::Timeout(t) => (t.high_qc().map(|q| q.view().number.0), Some(t.view.number.0)),
                };
                let (pre_t, post_t) = (triple_of_snap(pre), triple_of_snap(post));
                let (want_c, want_t) = (pre_t.cqc.max(jc), pre_t.tqc.max(jt));
                self.count("certificates_after_accepted_justification_checked");
                if jt.is_some() && jt <= pre_t.tqc && jc > pre_t.cqc {
                    self.count("accepted_timeout_certificates_not_newer_than_held_but_carrying_a_newer_commit_certificate");
                }
                if post_t.cqc != want_c || post_t.tqc != want_t {
                    self.alert("C05", format!("certificates-after-accepted-justification||{class}"), format!("node {node} held commit/timeout certificates of views {:?}/{:?}, accepted a message of class {class} whose justification carries {:?}/{:?}, and now holds {:?}/{:?}; the specification prescribes {:?}/{:?}", pre_t.cqc, pre_t.tqc, jc, jt, post_t.cqc, post_t.tqc, want_c, want_t));
                }
            }
            match m {
                ChonkyMsg::LeaderProposal(p) => {
                    // the vote is for exactly the block the justification implies (re-proposal) or the proposed payload
                    let (num, implied) = p.justification.get_implied_block(&self.c.schedule, self.c.genesis.first_block);
                    let want_hash = implied.or_else(|| p.proposal_payload.as_ref().map(|x| x.hash()));
                    let vote_ok = post.high_vote.as_ref().map_or(false, |h| h.view == p.view() && h.proposal.number == num && Some(h.proposal.payload) == want_hash);
                    if !vote_ok {
                        self.alert("C05", "vote-not-for-the-proposed-block||", format!("node {node}: after accepting a proposal for view {} block {} the recorded vote is {:?}", p.view().number.0, num.0, post.high_vote.as_ref().map(|h| (h.view.number.0, h.proposal.number.0))));
                    }
                    let ok = post.view == p.view().number && post.phase == Phase::Commit && post.high_vote.as_ref().map(|h| h.view.number) == Some(p.view().number);
                    if !ok {
                        self.alert("C05", "state-after-proposal||", format!("node {node}: after accepting a proposal for view {} the state is view {} phase {:?} high vote {:?}", p.view().number.0, post.view.0, post.phase, post.high_vote.as_ref().map(|h| h.view.number.0)));
                    }
                }
                ChonkyMsg::ReplicaCommit(v) => {
                    self.seen_commit[node].insert(msg.key.clone(), v.view.number.0);
                    // either nothing changes (no certificate yet) or the replica enters view+1 in Prepare holding the certificate
                    let advanced = Some(post.view.0) == v.view.number.0.checked_add(1) && post.phase == Phase::Prepare && post.high_commit_qc.as_ref().map(|q| q.view().number.0) == Some(v.view.number.0);
                    if !unchanged && !advanced {
                        self.alert("C05", "state-after-commit-vote||", format!("node {node}: accepting a commit vote for view {} led from view {} {:?} to view {} {:?}", v.view.number.0, pre.view.0, pre.phase, post.view.0, post.phase));
                    }
                }
                ChonkyMsg::ReplicaTimeout(t) => {
                    self.seen_timeout[node].insert(msg.key.clone(), t.view.number.0);
                    let advanced = Some(post.view.0) == t.view.number.0.checked_add(1) && post.phase == Phase::Prepare && post.high_timeout_qc.as_ref().map(|q| q.view.number.0) == Some(t.view.number.0);
                    if !unchanged && !advanced {
                        self.alert("C05", "state-after-timeout-vote||", format!("node {node}: accepting a timeout vote for view {} led from view {} {:?} to view {} {:?}", t.view.number.0, pre.view.0, pre.phase, post.view.0, post.phase));
                    }
                }
                ChonkyMsg::ReplicaNewView(nv) => {
                    let v = nv.view().number;
                    let ok = if v.0 > cur { post.view == v && post.phase == Phase::Prepare } else { post.view == pre.view && post.phase == pre.phase };
                    if !ok {
                        self.alert("C05", "state-after-new-view||", format!("node {node}: accepting a new-view for view {} led from view {} {:?} to view {} {:?}", v.0, pre.view.0, pre.phase, post.view.0, post.phase));
                    }
                }
            }
        }
    }

    fn on_step(&mut self, node: usize, kind: StepKind, snap: Snapshot) {
        self.count("snapshots_checked");
        let t = triple_of_snap(&snap);
        self.check_state_invariant(node, t, "snapshot");
        if let Some(prev) = self.snap_floor[node] {
            self.check_monotone(node, prev, t, "snapshot");
            if t.view > prev.view {
                self.count("view_changes_observed");
            }
        } else if let Some(fl) = self.floor[node] {
            // first snapshot of an incarnation: not below the durable state it started from
            self.check_monotone(node, fl, t, "after-restart");
        }
        self.snap_floor[node] = Some(t);
        if let StepKind::Message { accepted, msg } = &kind {
            if let Some(pre) = self.last_snap[node].clone() {
                self.check_reaction(node, &pre, msg, *accepted, &snap);
            }
        }
        self.last_snap[node] = Some(snap.clone());
        match &kind {
            StepKind::Message { accepted, msg } => {
                let ConsensusMsg::V2(m) = &msg.msg;
                let label = match m {
                    ChonkyMsg::LeaderProposal(_) => "proposal",
                    ChonkyMsg::ReplicaCommit(_) => "commit",
                    ChonkyMsg::ReplicaTimeout(_) => "timeout",
                    ChonkyMsg::ReplicaNewView(_) => "new_view",
                };
                self.count(&format!("processed_{label}_{}", if *accepted { "accepted" } else { "rejected" }));
                if *accepted && self.c.index_of(&msg.key).map_or(false, |i| self.c.byz[i]) {
                    self.count("byzantine_messages_accepted");
                }
            }
            StepKind::TimerExpired => self.count("timer_expiries"),
            StepKind::Started => self.count("replica_starts"),
        }
        // C16b: bookkeeping bounded by the committee size alone
        let n = self.c.n() as u64;
        let sizes = [
            ("commit_views_cache", snap.commit_views_cache_len as u64, n),
            ("timeout_views_cache", snap.timeout_views_cache_len as u64, n),
            ("timeout_qcs_cache", snap.timeout_qcs_cache_len as u64, n),
            ("commit_qcs_cache_views", snap.commit_qcs_cache_views as u64, n),
            ("commit_qcs_cache_entries", snap.commit_qcs_cache_entries as u64, n * n),
        ];
        for (name, got, bound) in sizes {
            self.max(&format!("max_{name}"), got);
            if got > bound {
                self.alert("C16", format!("cache-exceeds-committee-bound||{name}"), format!("node {node}: {name} holds {got} entries, bound for a committee of {n} is {bound}"));
            }
        }
        self.max_view = self.max_view.max(t.view);
    }
}
