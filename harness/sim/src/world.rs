//! The simulated world: committee, real replicas (`bft::Config::run`) over `MonEngine`, a manual
//! clock and the primitives the director uses (deliver, advance time, crash/restart, block sync).
use std::{
    collections::BTreeMap,
    sync::{atomic::Ordering, Arc},
};

use rand::{rngs::StdRng, seq::SliceRandom, Rng};
use zksync_concurrency::{ctx, scope, sync::prunable_mpsc, time};
use zksync_consensus_bft as bft;
use zksync_consensus_engine::EngineManager;
use zksync_consensus_roles::validator;

use crate::{
    engine::{CrashAt, MonEngine, NodeShared},
    log::{Ev, Log, StepKind},
};

pub const MAX_PAYLOAD: usize = 4096;
pub const VIEW_TIMEOUT_MS: i64 = 2000;

pub type SignedMsg = validator::Signed<validator::ConsensusMsg>;

#[derive(Debug)]
pub struct Committee {
    /// secret keys in schedule order
    pub sk: Vec<validator::SecretKey>,
    pub w: Vec<u64>,
    pub schedule: validator::Schedule,
    pub genesis: validator::Genesis,
    /// Byzantine validators (the harness signs whatever it wants with their keys)
    pub byz: Vec<bool>,
}

impl Committee {
    pub fn total(&self) -> u128 {
        self.w.iter().map(|x| *x as u128).sum()
    }
    pub fn f(&self) -> u128 {
        (self.total() - 1) / 5
    }
    pub fn quorum(&self) -> u128 {
        self.total() - self.f()
    }
    pub fn subquorum(&self) -> u128 {
        self.total() - 3 * self.f()
    }
    pub fn n(&self) -> usize {
        self.sk.len()
    }
    pub fn byz_weight(&self) -> u128 {
        (0..self.n()).filter(|i| self.byz[*i]).map(|i| self.w[i] as u128).sum()
    }
    pub fn index_of(&self, k: &validator::PublicKey) -> Option<usize> {
        self.schedule.index(k)
    }
    pub fn genesis_hash(&self) -> validator::GenesisHash {
        self.genesis.hash()
    }
    pub fn view(&self, n: u64) -> validator::v2::View {
        validator::v2::View { genesis: self.genesis_hash(), epoch: validator::EpochNumber(0), number: validator::ViewNumber(n) }
    }
    pub fn leader(&self, view: u64) -> usize {
        self.index_of(&self.schedule.view_leader(validator::ViewNumber(view))).unwrap()
    }

    /// weights family: 0 equal, 1 one heavy, 2 random 1..20, 3 small 1..3, 4 extreme
    pub fn generate(rng: &mut StdRng, pool: &[validator::SecretKey], n: usize, family: usize, byz_fraction: f64, first_block: u64, leader_sel: validator::LeaderSelection, eligible_all: bool) -> Self {
        let w: Vec<u64> = match family % 5 {
            0 => vec![1; n],
            1 => {
                let mut w = vec![1u64; n];
                let i = rng.gen_range(0..n);
                w[i] = rng.gen_range(2..=3.max(n as u64 / 2));
                w
            }
            2 => (0..n).map(|_| rng.gen_range(1..=20)).collect(),
            3 => (0..n).map(|_| rng.gen_range(1..=3)).collect(),
            _ => {
                let cap = u64::MAX / (n as u64 + 1);
                (0..n).map(|_| rng.gen_range(cap / 2..=cap)).collect()
            }
        };
        let mut idx: Vec<usize> = (0..pool.len()).collect();
        idx.shuffle(rng);
        let members: Vec<validator::SecretKey> = idx[..n].iter().map(|i| pool[*i].clone()).collect();
        let mut leader: Vec<bool> = (0..n).map(|_| eligible_all || rng.gen_bool(0.6)).collect();
        if !leader.iter().any(|b| *b) {
            leader[0] = true;
        }
        let schedule = validator::Schedule::new(
            members.iter().enumerate().map(|(i, k)| validator::ValidatorInfo { key: k.public(), weight: w[i], leader: leader[i] }),
            leader_sel,
        )
        .unwrap();
        let mut sk = vec![];
        let mut ww = vec![];
        for v in schedule.iter() {
            let j = members.iter().position(|m| m.public() == v.key).unwrap();
            sk.push(members[j].clone());
            ww.push(w[j]);
        }
        let genesis = validator::GenesisRaw {
            chain_id: validator::ChainId(1337),
            fork_number: validator::ForkNumber(rng.gen_range(0..5)),
            protocol_version: validator::ProtocolVersion::CURRENT,
            first_block: validator::BlockNumber(first_block),
            validators_schedule: Some(schedule.clone()),
        }
        .with_hash();
        let mut c = Committee { sk, w: ww, schedule, genesis, byz: vec![false; n] };
        // Byzantine set: greedy random subset with weight <= f (scaled by byz_fraction)
        let budget = (c.f() as f64 * byz_fraction).floor() as u128;
        let mut order: Vec<usize> = (0..n).collect();
        order.shuffle(rng);
        let mut used = 0u128;
        for i in order {
            if used + c.w[i] as u128 <= budget {
                c.byz[i] = true;
                used += c.w[i] as u128;
            }
        }
        c
    }
}

#[derive(Debug)]
struct Obs {
    shared: Arc<NodeShared>,
}

impl bft::verif::Observer for Obs {
    fn on_step(&self, step: bft::verif::Step<'_>, snapshot: &bft::verif::Snapshot) {
        let kind = match step {
            bft::verif::Step::Started => StepKind::Started,
            bft::verif::Step::Message { msg, accepted } => StepKind::Message { msg: msg.clone(), accepted },
            bft::verif::Step::TimerExpired => StepKind::TimerExpired,
        };
        self.shared.log.push(Ev::Step { node: self.shared.idx, inc: self.shared.inc(), kind, snap: snapshot.clone() });
    }
}

pub struct Node {
    pub shared: Arc<NodeShared>,
    pub key: validator::SecretKey,
    pub inbound: Option<prunable_mpsc::Sender<bft::FromNetworkMessage>>,
    pub manager: Option<Arc<EngineManager>>,
    handle: Option<tokio::task::JoinHandle<anyhow::Result<()>>>,
    kill: Option<tokio::sync::oneshot::Sender<()>>,
    pub alive: bool,
    /// error or panic with which an incarnation ended on its own
    pub died: Option<String>,
}

pub struct World {
    pub clock: ctx::ManualClock,
    pub ctx: ctx::Ctx,
    pub committee: Arc<Committee>,
    pub log: Arc<Log>,
    /// one entry per committee member; Byzantine members have no replica (None)
    pub nodes: Vec<Option<Node>>,
    /// twins: entries of `nodes` beyond the committee size are real replicas running under a *Byzantine* key (two per key);
    /// `twin_of[k]` is the committee index whose key entry `n + k` runs under
    pub twin_of: Vec<usize>,
    pub settle_yields: usize,
}

impl World {
    pub async fn new(committee: Committee, twins: bool) -> Self {
        let clock = ctx::ManualClock::new();
        let ctx = ctx::test_root(&clock);
        let log = Arc::new(Log::default());
        let committee = Arc::new(committee);
        let mut nodes = vec![];
        for i in 0..committee.n() {
            if committee.byz[i] {
                nodes.push(None);
                continue;
            }
            let shared = NodeShared::new(i, committee.genesis.clone(), log.clone());
            nodes.push(Some(Node { shared, key: committee.sk[i].clone(), inbound: None, manager: None, handle: None, kill: None, alive: false, died: None }));
        }
        let mut twin_of = vec![];
        if twins {
            for i in 0..committee.n() {
                if !committee.byz[i] {
                    continue;
                }
                for _ in 0..2 {
                    let idx = committee.n() + twin_of.len();
                    let shared = NodeShared::new(idx, committee.genesis.clone(), log.clone());
                    nodes.push(Some(Node { shared, key: committee.sk[i].clone(), inbound: None, manager: None, handle: None, kill: None, alive: false, died: None }));
                    twin_of.push(i);
                }
            }
        }
        World { clock, ctx, committee, log, nodes, twin_of, settle_yields: 40 }
    }

    pub fn correct(&self) -> Vec<usize> {
        (0..self.committee.n()).filter(|i| self.nodes[*i].is_some()).collect()
    }

    /// real replicas that run under Byzantine keys (never judged; their traffic is Byzantine traffic)
    pub fn twins(&self) -> Vec<usize> {
        (self.committee.n()..self.nodes.len()).collect()
    }

    pub fn node(&self, i: usize) -> &Node {
        self.nodes[i].as_ref().unwrap()
    }

    /// Starts a (new) incarnation of node `i` from its durable state.
    pub async fn start(&mut self, i: usize) {
        let clock = self.clock.clone();
        let node = self.nodes[i].as_mut().unwrap();
        assert!(!node.alive);
        let shared = node.shared.clone();
        shared.incarnation.fetch_add(1, Ordering::SeqCst);
        shared.at_gate.store(false, Ordering::SeqCst);
        let durable = shared.durable.lock().unwrap().state.clone();
        shared.log.push(Ev::Restart { node: i, inc: shared.inc(), durable });
        let (out_tx, out_rx) = ctx::channel::unbounded();
        *shared.outbound.lock().unwrap() = Some(out_rx);
        let (in_tx, in_rx) = bft::create_input_channel();
        let ictx = ctx::test_root(&clock);
        let (manager, runner) = EngineManager::new(&ictx, Box::new(MonEngine(shared.clone())), time::Duration::seconds(1)).await.expect("EngineManager::new");
        let cfg = bft::Config::new(node.key.clone(), MAX_PAYLOAD, time::Duration::milliseconds(VIEW_TIMEOUT_MS), manager.clone(), validator::EpochNumber(0))
            .expect("bft::Config::new")
            .with_verif_observer(Arc::new(Obs { shared: shared.clone() }));
        let (kill_tx, kill_rx) = tokio::sync::oneshot::channel::<()>();
        let handle = tokio::spawn(async move {
            let ctx = ictx;
            scope::run!(&ctx, |ctx, s| async {
                s.spawn_bg(async { runner.run(ctx).await });
                s.spawn_bg(async { cfg.run(ctx, out_tx, in_rx).await });
                let _ = kill_rx.await;
                Ok(())
            })
            .await
        });
        node.inbound = Some(in_tx);
        node.manager = Some(manager);
        node.handle = Some(handle);
        node.kill = Some(kill_tx);
        node.alive = true;
        node.died = None;
    }

    /// Kills the current incarnation of node `i` (process crash): all its tasks end, in-memory state is lost.
    pub async fn kill(&mut self, i: usize) {
        let node = self.nodes[i].as_mut().unwrap();
        if !node.alive {
            return;
        }
        // whatever it had emitted is on the wire already
        node.shared.drain_outbound();
        if let Some(k) = node.kill.take() {
            let _ = k.send(());
        }
        node.inbound = None;
        node.manager = None;
        if let Some(h) = node.handle.take() {
            // the scope cancels and joins its tasks; all of them are ctx-aware
            let mut h = h;
            let mut spins = 0;
            loop {
                tokio::task::yield_now().await;
                if h.is_finished() {
                    match (&mut h).await {
                        Ok(Ok(())) => {}
                        Ok(Err(e)) => node.died = Some(format!("error: {e:#}")),
                        Err(e) => node.died = Some(format!("join: {e}")),
                    }
                    break;
                }
                spins += 1;
                if spins > 100_000 {
                    node.died = Some("incarnation did not terminate after kill".into());
                    h.abort();
                    break;
                }
            }
        }
        node.shared.drain_outbound();
        *node.shared.outbound.lock().unwrap() = None;
        node.alive = false;
    }

    /// Lets all replica tasks run until nothing changes any more.
    pub async fn settle(&mut self) {
        let mut last = self.log.len();
        let mut quiet = 0;
        let mut total = 0;
        while quiet < self.settle_yields && total < 5_000 {
            tokio::task::yield_now().await;
            total += 1;
            let now = self.log.len();
            if now != last {
                last = now;
                quiet = 0;
            } else {
                quiet += 1;
            }
        }
        // detect incarnations that ended on their own (error / panic)
        for i in 0..self.nodes.len() {
            let Some(node) = self.nodes[i].as_mut() else { continue };
            if node.alive && node.handle.as_ref().map_or(false, |h| h.is_finished()) {
                let h = node.handle.take().unwrap();
                let res = h.await;
                node.died = Some(match res {
                    Ok(Ok(())) => "replica task returned Ok without being killed".to_string(),
                    Ok(Err(e)) => format!("error: {e:#}"),
                    Err(e) => {
                        if e.is_panic() {
                            let (loc, msg) = vcommon::take_last_panic().unwrap_or_default();
                            format!("panic at {loc}: {msg}")
                        } else {
                            format!("join: {e}")
                        }
                    }
                });
                node.shared.drain_outbound();
                node.alive = false;
                node.inbound = None;
                node.manager = None;
                node.kill = None;
            }
        }
        for n in self.nodes.iter().flatten() {
            n.shared.drain_outbound();
        }
    }

    /// Hands a message to the inbound queue of node `i` (the real prunable queue with the real filter).
    pub fn deliver(&self, i: usize, msg: &SignedMsg) -> bool {
        let node = self.node(i);
        let Some(tx) = node.inbound.as_ref() else { return false };
        let (ack, _rx) = tokio::sync::oneshot::channel();
        // the queue's filter / selection functions run in the caller (in production: the network's RPC handler task)
        let req = bft::FromNetworkMessage { msg: msg.clone(), ack };
        if let Err(p) = vcommon::catch(|| tx.send(req)) {
            self.log.push(Ev::InboundPanic { node: i, location: p.loc(), message: p.message });
        }
        true
    }

    pub fn advance(&self, ms: i64) {
        self.clock.advance(time::Duration::milliseconds(ms));
    }

    pub fn set_crash(&self, i: usize, c: Option<CrashAt>) {
        *self.node(i).shared.crash_at.lock().unwrap() = c;
    }

    pub fn at_gate(&self, i: usize) -> bool {
        self.node(i).shared.at_gate.load(Ordering::SeqCst)
    }

    /// Height (next block number to be stored) of node `i`'s durable store.
    pub fn height(&self, i: usize) -> u64 {
        self.node(i).shared.next_block().0
    }

    pub fn blocks_of(&self, i: usize) -> Vec<validator::Block> {
        self.node(i).shared.durable.lock().unwrap().blocks.clone()
    }

    /// Offers `block` to node `i` through the real `EngineManager::queue_block` (the path block sync uses).
    /// Only called for the block the node needs next (a farther block would wait for the gap to close).
    pub async fn sync_block(&self, i: usize, block: validator::Block) -> Result<(), String> {
        let node = self.node(i);
        let Some(m) = node.manager.as_ref() else { return Err("down".into()) };
        if block.number() > m.queued().next() {
            return Err("gap".into());
        }
        let c = self.ctx.with_timeout(time::Duration::milliseconds(1));
        m.queue_block(&c, block).await.map_err(|e| format!("{e:?}"))
    }

    /// Offers a block that lies ahead of the node's next block: the call parks (waiting for the gap to close) and is cancelled
    /// by its 1 ms deadline - what a block-sync call with a timeout does when a peer stalls a lower block.
    pub async fn sync_block_ahead(&self, i: usize, block: validator::Block) -> Result<(), String> {
        let node = self.node(i);
        let Some(m) = node.manager.as_ref() else { return Err("down".into()) };
        // (manual clock: a deadline never passes by itself, so the call gets a context that is cancelled already; queue_block
        // verifies the block before it starts waiting for the gap, which is where the cancellation takes effect)
        let c = self.ctx.with_timeout(time::Duration::ZERO);
        for _ in 0..8 {
            tokio::task::yield_now().await;
        }
        m.queue_block(&c, block).await.map_err(|e| format!("{e:?}"))
    }

    pub async fn shutdown(&mut self) {
        for i in 0..self.nodes.len() {
            if self.nodes[i].is_some() {
                self.kill(i).await;
            }
        }
    }
}

/// Per-validator view of who holds which weight (for monitors that need ground truth).
pub fn weights_by_key(c: &Committee) -> BTreeMap<validator::PublicKey, u64> {
    c.schedule.iter().map(|v| (v.key.clone(), v.weight)).collect()
}
