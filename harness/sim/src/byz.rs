//! Byzantine validators: the harness holds their keys, sees all traffic and signs whatever helps.
use std::collections::BTreeMap;

use rand::{rngs::StdRng, seq::SliceRandom, Rng};
use zksync_consensus_roles::validator::{
    self,
    v2::{BlockHeader, ChonkyMsg, CommitQC, LeaderProposal, ProposalJustification, ReplicaCommit, ReplicaNewView, ReplicaTimeout, TimeoutQC},
    ConsensusMsg,
};

use crate::world::{Committee, SignedMsg};

pub fn s_commit(sk: &validator::SecretKey, m: ReplicaCommit) -> SignedMsg {
    sk.sign_msg(ConsensusMsg::V2(ChonkyMsg::ReplicaCommit(m)))
}
pub fn s_timeout(sk: &validator::SecretKey, m: ReplicaTimeout) -> SignedMsg {
    sk.sign_msg(ConsensusMsg::V2(ChonkyMsg::ReplicaTimeout(m)))
}
pub fn s_new_view(sk: &validator::SecretKey, m: ReplicaNewView) -> SignedMsg {
    sk.sign_msg(ConsensusMsg::V2(ChonkyMsg::ReplicaNewView(m)))
}
pub fn s_proposal(sk: &validator::SecretKey, m: LeaderProposal) -> SignedMsg {
    sk.sign_msg(ConsensusMsg::V2(ChonkyMsg::LeaderProposal(m)))
}

/// Everything that has ever been on the wire, indexed for the adversary.
#[derive(Default)]
pub struct Knowledge {
    pub commits: BTreeMap<u64, Vec<validator::Signed<ReplicaCommit>>>,
    pub timeouts: BTreeMap<u64, Vec<validator::Signed<ReplicaTimeout>>>,
    pub commit_qcs: BTreeMap<u64, CommitQC>,
    pub timeout_qcs: BTreeMap<u64, TimeoutQC>,
    pub proposals: BTreeMap<u64, Vec<LeaderProposal>>,
    pub max_view: u64,
}

impl Knowledge {
    fn learn_just(&mut self, j: &ProposalJustification) {
        match j {
            ProposalJustification::Commit(q) => {
                self.commit_qcs.entry(q.view().number.0).or_insert_with(|| q.clone());
            }
            ProposalJustification::Timeout(q) => {
                self.timeout_qcs.entry(q.view.number.0).or_insert_with(|| q.clone());
                if let Some(h) = q.high_qc() {
                    self.commit_qcs.entry(h.view().number.0).or_insert_with(|| h.clone());
                }
            }
        }
    }

    /// Learns from a message emitted by a *correct* node (so embedded certificates are valid).
    pub fn learn(&mut self, m: &SignedMsg) {
        let ConsensusMsg::V2(c) = &m.msg;
        match c {
            ChonkyMsg::ReplicaCommit(v) => {
                self.max_view = self.max_view.max(v.view.number.0);
                self.commits.entry(v.view.number.0).or_default().push(m.clone().cast().unwrap());
            }
            ChonkyMsg::ReplicaTimeout(t) => {
                self.max_view = self.max_view.max(t.view.number.0);
                if let Some(q) = &t.high_qc {
                    self.commit_qcs.entry(q.view().number.0).or_insert_with(|| q.clone());
                }
                self.timeouts.entry(t.view.number.0).or_default().push(m.clone().cast().unwrap());
            }
            ChonkyMsg::ReplicaNewView(nv) => {
                self.max_view = self.max_view.max(nv.view().number.0);
                self.learn_just(&nv.justification);
            }
            ChonkyMsg::LeaderProposal(p) => {
                self.max_view = self.max_view.max(p.view().number.0);
                self.learn_just(&p.justification);
                self.proposals.entry(p.view().number.0).or_default().push(p.clone());
            }
        }
    }

    /// Any valid justification for entering `view` that is known.
    pub fn justification_for(&self, view: u64, prefer_timeout: bool) -> Option<ProposalJustification> {
        let prev = view.checked_sub(1)?;
        let c = self.commit_qcs.get(&prev).map(|q| ProposalJustification::Commit(q.clone()));
        let t = self.timeout_qcs.get(&prev).map(|q| ProposalJustification::Timeout(q.clone()));
        if prefer_timeout {
            t.or(c)
        } else {
            c.or(t)
        }
    }
}

/// Tries to assemble a commit certificate for `view` from the known votes plus Byzantine signatures.
pub fn assemble_commit_qc(c: &Committee, k: &mut Knowledge, view: u64) -> Option<CommitQC> {
    if let Some(q) = k.commit_qcs.get(&view) {
        return Some(q.clone());
    }
    let votes = k.commits.get(&view)?;
    let mut by_msg: BTreeMap<ReplicaCommit, Vec<&validator::Signed<ReplicaCommit>>> = BTreeMap::new();
    for v in votes {
        by_msg.entry(v.msg.clone()).or_default().push(v);
    }
    for (msg, vs) in by_msg {
        if msg.view.genesis != c.genesis_hash() {
            continue;
        }
        let mut qc = CommitQC::new(msg.clone(), &c.schedule);
        for v in vs {
            let _ = qc.add(v, c.genesis_hash(), validator::EpochNumber(0), &c.schedule);
        }
        for i in 0..c.n() {
            if c.byz[i] {
                let s: validator::Signed<ReplicaCommit> = c.sk[i].sign_msg(msg.clone());
                let _ = qc.add(&s, c.genesis_hash(), validator::EpochNumber(0), &c.schedule);
            }
        }
        if qc.verify(c.genesis_hash(), validator::EpochNumber(0), &c.schedule).is_ok() {
            k.commit_qcs.insert(view, qc.clone());
            return Some(qc);
        }
    }
    None
}

/// Tries to assemble a timeout certificate for `view`; Byzantine signers contribute `lie` (must be valid).
pub fn assemble_timeout_qc(c: &Committee, k: &mut Knowledge, view: u64, lie: impl Fn(usize) -> ReplicaTimeout, store: bool) -> Option<TimeoutQC> {
    let mut qc = TimeoutQC::new(c.view(view));
    if let Some(ts) = k.timeouts.get(&view) {
        for t in ts {
            let _ = qc.add(t, c.genesis_hash(), validator::EpochNumber(0), &c.schedule);
        }
    }
    for i in 0..c.n() {
        if c.byz[i] {
            let s: validator::Signed<ReplicaTimeout> = c.sk[i].sign_msg(lie(i));
            let _ = qc.add(&s, c.genesis_hash(), validator::EpochNumber(0), &c.schedule);
        }
    }
    if qc.verify(c.genesis_hash(), validator::EpochNumber(0), &c.schedule).is_ok() {
        if store {
            k.timeout_qcs.entry(view).or_insert_with(|| qc.clone());
        }
        Some(qc)
    } else {
        None
    }
}

/// A Byzantine action: messages with the set of correct destinations each goes to.
pub struct Crafted {
    pub what: &'static str,
    pub msgs: Vec<(SignedMsg, Vec<usize>)>,
    /// equivocation in `view` with two payloads: the network may steer the votes for each to a different half
    pub steer: Option<(u64, validator::PayloadHash, validator::PayloadHash)>,
}

fn split(rng: &mut StdRng, correct: &[usize]) -> (Vec<usize>, Vec<usize>) {
    let mut v = correct.to_vec();
    v.shuffle(rng);
    let k = rng.gen_range(0..=v.len());
    (v[..k].to_vec(), v[k..].to_vec())
}

fn some_subset(rng: &mut StdRng, correct: &[usize]) -> Vec<usize> {
    match rng.gen_range(0..4) {
        0 => correct.to_vec(),
        1 => vec![*correct.choose(rng).unwrap()],
        _ => correct.iter().copied().filter(|_| rng.gen_bool(0.5)).collect(),
    }
}

/// Picks one adversarial action. `cur` is the highest view any correct replica is in.
pub fn craft(rng: &mut StdRng, c: &Committee, k: &mut Knowledge, correct: &[usize], cur: u64, allow_extreme: bool, laggard: Option<(usize, u64)>, helpful: bool) -> Option<Crafted> {
    let byz: Vec<usize> = (0..c.n()).filter(|i| c.byz[*i]).collect();
    if byz.is_empty() {
        return None;
    }
    let b = *byz.choose(rng).unwrap();
    let sk = &c.sk[b];
    // `helpful`: the Byzantine validators vote like honest ones (so that the rest can finalize without an isolated replica) and
    // poison that replica with old certificates
    let choice = if helpful { [3usize, 3, 3, 5][rng.gen_range(0..4)] } else { rng.gen_range(0..if allow_extreme { 14 } else { 12 }) };
    let payload = |rng: &mut StdRng, tag: &str| validator::Payload(format!("{tag}-byz{b}-{}", rng.gen::<u32>()).into_bytes());
    match choice {
        // equivocating / rule-breaking proposals when a Byzantine validator leads a current or upcoming view
        0 | 1 | 2 => {
            let view = (cur..cur + 3).find(|v| c.byz[c.leader(*v)])?;
            let leader = &c.sk[c.leader(view)];
            let just = k.justification_for(view, rng.gen_bool(0.3)).or_else(|| {
                // try to complete a certificate with Byzantine help
                let prev = view.checked_sub(1)?;
                if let Some(q) = assemble_commit_qc(c, k, prev) {
                    return Some(ProposalJustification::Commit(q));
                }
                let cc = c;
                assemble_timeout_qc(c, k, prev, |_| ReplicaTimeout { view: cc.view(prev), high_vote: None, high_qc: None }, true).map(ProposalJustification::Timeout)
            })?;
            let (_num, implied) = just.get_implied_block(&c.schedule, c.genesis.first_block);
            let (a, bset) = split(rng, correct);
            let mk = |p: Option<validator::Payload>| s_proposal(leader, LeaderProposal { proposal_payload: p, justification: just.clone() });
            let mut steer = None;
            let msgs = match (implied.is_some(), rng.gen_range(0..7)) {
                (false, 0) => vec![(mk(Some(payload(rng, "A"))), a), (mk(Some(payload(rng, "B"))), bset)],
                // both proposals to everybody: whoever votes twice helps certify both
                (false, 5) | (false, 6) => {
                    let (x, y) = (payload(rng, "X"), payload(rng, "Y"));
                    steer = Some((view, x.hash(), y.hash()));
                    vec![(mk(Some(x)), correct.to_vec()), (mk(Some(y)), correct.to_vec())]
                }
                (false, 1) => vec![(mk(Some(payload(rng, "BAD"))), a), (mk(Some(payload(rng, "C"))), bset)],
                (false, 2) => vec![(mk(None), a), (mk(Some(validator::Payload(vec![1; crate::world::MAX_PAYLOAD + 1]))), bset)],
                (false, _) => vec![(mk(Some(payload(rng, "D"))), a), (mk(Some(payload(rng, "E"))), bset.clone()), (mk(Some(payload(rng, "F"))), bset)],
                (true, 0) => vec![(mk(Some(payload(rng, "R"))), a), (mk(None), bset)],
                // a forced re-proposal that comes with a payload the replicas have seen (and cached) before for this very block
                // number - proposed in an earlier view and abandoned; it must be refused like any other payload
                (true, 1) | (true, 2) | (true, 3) => {
                    let mut old: Vec<validator::Payload> = vec![];
                    for ps in k.proposals.values() {
                        for p in ps {
                            if let Some(pl) = &p.proposal_payload {
                                let (n2, _) = p.justification.get_implied_block(&c.schedule, c.genesis.first_block);
                                if n2 == _num && Some(pl.hash()) != implied {
                                    old.push(pl.clone());
                                }
                            }
                        }
                    }
                    match old.choose(rng) {
                        Some(x) => vec![(mk(Some(x.clone())), correct.to_vec())],
                        None => vec![(mk(None), a)],
                    }
                }
                (true, _) => vec![(mk(None), a)],
            };
            for (m, _) in &msgs {
                if let ConsensusMsg::V2(ChonkyMsg::LeaderProposal(p)) = &m.msg {
                    k.proposals.entry(view).or_default().push(p.clone());
                }
            }
            let what = if implied.is_some() && msgs.iter().any(|(m, _)| matches!(&m.msg, ConsensusMsg::V2(ChonkyMsg::LeaderProposal(p)) if p.proposal_payload.is_some())) { "byz-reproposal-with-payload" } else { "byz-proposal" };
            Some(Crafted { what, msgs, steer })
        }
        // vote for everything: commit votes for every proposal seen in a recent view (equivocating votes)
        3 | 4 => {
            let view = if helpful { cur } else { rng.gen_range(cur.saturating_sub(1)..=cur + 1) };
            let mut msgs = vec![];
            let mut headers: Vec<BlockHeader> = vec![];
            for p in k.proposals.get(&view).into_iter().flatten() {
                let (num, implied) = p.justification.get_implied_block(&c.schedule, c.genesis.first_block);
                let h = implied.or_else(|| p.proposal_payload.as_ref().map(|p| p.hash()));
                if let Some(h) = h {
                    headers.push(BlockHeader { number: num, payload: h });
                }
            }
            for v in k.commits.get(&view).into_iter().flatten() {
                headers.push(v.msg.proposal);
            }
            headers.sort();
            headers.dedup();
            if headers.is_empty() {
                if helpful {
                    return None;
                }
                headers.push(BlockHeader { number: c.genesis.first_block, payload: payload(rng, "ghost").hash() });
            }
            for h in headers {
                for b in if helpful { byz.clone() } else { vec![b] } {
                    let m = s_commit(&c.sk[b], ReplicaCommit { view: c.view(view), proposal: h });
                    msgs.push((m, if helpful { correct.to_vec() } else { some_subset(rng, correct) }));
                }
            }
            Some(Crafted { what: "byz-commit-votes", msgs, steer: None })
        }
        // timeout votes lying about the high vote / reporting old-but-valid certificates
        5 | 6 if helpful => {
            // an honest-looking timeout vote for the current view from every Byzantine validator
            let newest = k.commit_qcs.values().next_back().cloned();
            let msgs = byz.iter().map(|b| (s_timeout(&c.sk[*b], ReplicaTimeout { view: c.view(cur), high_vote: None, high_qc: newest.clone() }), correct.to_vec())).collect();
            Some(Crafted { what: "byz-timeout-helpful", msgs, steer: None })
        }
        5 | 6 if rng.gen_bool(0.3) => {
            // a vote for the current view immediately followed by one for the next view, to everybody: the bookkeeping of the
            // partially collected certificate of the current view must keep the votes of the OTHER validators
            let newest = k.commit_qcs.values().next_back().cloned();
            let mut msgs = vec![];
            if rng.gen_bool(0.7) {
                for v in [cur, cur + 1] {
                    msgs.push((s_timeout(sk, ReplicaTimeout { view: c.view(v), high_vote: None, high_qc: newest.clone() }), correct.to_vec()));
                }
            } else {
                let h = k.commits.get(&cur).and_then(|v| v.first()).map(|s| s.msg.proposal).unwrap_or(BlockHeader { number: c.genesis.first_block, payload: payload(rng, "two").hash() });
                for v in [cur, cur + 1] {
                    msgs.push((s_commit(sk, ReplicaCommit { view: c.view(v), proposal: h }), correct.to_vec()));
                }
            }
            Some(Crafted { what: "byz-vote-for-current-then-next-view", msgs, steer: None })
        }
        5 | 6 => {
            let view = rng.gen_range(cur.saturating_sub(1)..=cur + 1);
            let old_qc = if rng.gen_bool(0.6) { k.commit_qcs.values().collect::<Vec<_>>().choose(rng).map(|q| (*q).clone()) } else { None };
            let high_vote = match rng.gen_range(0..4) {
                0 => None,
                1 => Some(ReplicaCommit { view: c.view(view), proposal: BlockHeader { number: validator::BlockNumber(c.genesis.first_block.0 + rng.gen_range(0..4)), payload: payload(rng, "lie").hash() } }),
                2 => k.commits.values().flatten().collect::<Vec<_>>().choose(rng).map(|s| s.msg.clone()),
                _ => Some(ReplicaCommit { view: c.view(rng.gen_range(0..=view)), proposal: BlockHeader { number: validator::BlockNumber(rng.gen_range(0..6)), payload: payload(rng, "lie2").hash() } }),
            };
            let m = s_timeout(sk, ReplicaTimeout { view: c.view(view), high_vote, high_qc: old_qc });
            Some(Crafted { what: "byz-timeout-lie", msgs: vec![(m, some_subset(rng, correct))], steer: None })
        }
        // new-view carrying an old certificate, or one completed early with Byzantine signatures
        7 if !helpful && cur >= 1 && c.byz[c.leader(cur)] && rng.gen_bool(0.6) => {
            // the (Byzantine) leader of the CURRENT view announces it again with ANOTHER timeout certificate for the preceding view:
            // the honest timeout votes plus Byzantine votes that carry the newest commit certificate that can be assembled -
            // possibly one no correct replica has seen. Replicas that already hold a timeout certificate of that view must still
            // take over the newer commit certificate inside.
            let old = cur - 1;
            let newest = (old.saturating_sub(2)..=old).rev().find_map(|v| assemble_commit_qc(c, k, v)).or_else(|| k.commit_qcs.values().next_back().cloned());
            let cc = c;
            let qc = assemble_timeout_qc(c, k, old, |_| ReplicaTimeout { view: cc.view(old), high_vote: None, high_qc: newest.clone() }, false)?;
            let m = s_new_view(&c.sk[c.leader(cur)], ReplicaNewView { justification: ProposalJustification::Timeout(qc) });
            Some(Crafted { what: "byz-new-view-current-view-other-timeout-certificate", msgs: vec![(m, correct.to_vec())], steer: None })
        }
        7 => {
            let mut only_to: Option<usize> = None;
            let just = if helpful || rng.gen_bool(0.5) {
                // a timeout certificate of an OLD view, built from the honest timeout votes of that view plus this validator's
                // own vote - which carries the NEWEST commit certificate (nothing bounds the view of a vote's high certificate):
                // a lagging replica that accepts it learns the newest certificate while staying in an old view. Aimed at the
                // replica that lags most, for the oldest view it would still accept.
                let old = match laggard {
                    Some((node, view)) if view < cur => {
                        only_to = Some(node);
                        *k.timeouts.range(view..).next()?.0
                    }
                    _ if helpful => return None,
                    _ => **k.timeouts.keys().collect::<Vec<_>>().choose(rng)?,
                };
                let newest = k.commit_qcs.values().next_back().cloned();
                let cc = c;
                ProposalJustification::Timeout(assemble_timeout_qc(c, k, old, |_| ReplicaTimeout { view: cc.view(old), high_vote: None, high_qc: newest.clone() }, false)?)
            } else if rng.gen_bool(0.5) {
                let v = *k.commit_qcs.keys().collect::<Vec<_>>().choose(rng)?;
                ProposalJustification::Commit(k.commit_qcs[v].clone())
            } else {
                let prev = cur.checked_sub(rng.gen_range(0..2))?;
                if let Some(q) = assemble_commit_qc(c, k, prev) {
                    ProposalJustification::Commit(q)
                } else {
                    let cc = c;
                    ProposalJustification::Timeout(assemble_timeout_qc(c, k, prev, |_| ReplicaTimeout { view: cc.view(prev), high_vote: None, high_qc: None }, false)?)
                }
            };
            let m = s_new_view(sk, ReplicaNewView { justification: just });
            let to = match only_to {
                Some(n) => vec![n],
                None => some_subset(rng, correct),
            };
            Some(Crafted { what: if only_to.is_some() { "byz-new-view-old-certificate-to-laggard" } else { "byz-new-view" }, msgs: vec![(m, to)], steer: None })
        }
        // votes for future views (flood)
        8 => {
            let mut msgs = vec![];
            for _ in 0..rng.gen_range(1..6) {
                let view = cur + rng.gen_range(1..2000);
                let m = if rng.gen_bool(0.5) {
                    s_commit(sk, ReplicaCommit { view: c.view(view), proposal: BlockHeader { number: validator::BlockNumber(rng.gen_range(0..50)), payload: payload(rng, "fut").hash() } })
                } else {
                    s_timeout(sk, ReplicaTimeout { view: c.view(view), high_vote: None, high_qc: None })
                };
                msgs.push((m, some_subset(rng, correct)));
            }
            Some(Crafted { what: "byz-future-votes", msgs, steer: None })
        }
        // messages for another chain / epoch, or by a non-member
        9 => {
            let mut view = c.view(cur);
            if rng.gen_bool(0.5) {
                view.epoch = validator::EpochNumber(1);
            } else {
                view.genesis = rng.gen();
            }
            let m = match rng.gen_range(0..2) {
                0 => s_commit(sk, ReplicaCommit { view, proposal: BlockHeader { number: c.genesis.first_block, payload: payload(rng, "x").hash() } }),
                _ => s_timeout(sk, ReplicaTimeout { view, high_vote: None, high_qc: None }),
            };
            Some(Crafted { what: "byz-other-chain", msgs: vec![(m, some_subset(rng, correct))], steer: None })
        }
        10 => {
            let outsider: validator::SecretKey = rng.gen();
            let m = match rng.gen_range(0..3) {
                0 => s_commit(&outsider, ReplicaCommit { view: c.view(cur), proposal: BlockHeader { number: c.genesis.first_block, payload: payload(rng, "o").hash() } }),
                1 => s_timeout(&outsider, ReplicaTimeout { view: c.view(cur), high_vote: None, high_qc: None }),
                _ => {
                    let j = k.justification_for(cur, false)?;
                    s_new_view(&outsider, ReplicaNewView { justification: j })
                }
            };
            Some(Crafted { what: "byz-non-member", msgs: vec![(m, some_subset(rng, correct))], steer: None })
        }
        // a proposal for the current / next view by a validator that does NOT lead it (valid justification, fresh payload)
        11 => {
            let view = (cur..cur + 2).find(|v| c.leader(*v) != b)?;
            let just = k.justification_for(view, rng.gen_bool(0.3))?;
            let (_n, implied) = just.get_implied_block(&c.schedule, c.genesis.first_block);
            let p = if implied.is_some() { None } else { Some(payload(rng, "W")) };
            let m = s_proposal(sk, LeaderProposal { proposal_payload: p, justification: just });
            Some(Crafted { what: "byz-proposal-by-non-leader", msgs: vec![(m, correct.to_vec())], steer: None })
        }
        // well-signed absurd values (C10 L6)
        _ => {
            let big = [u64::MAX, u64::MAX - 1, 1 << 63][rng.gen_range(0..3)];
            let m = match rng.gen_range(0..7) {
                5 => {
                    // a certificate that claims the last possible view: the message's own view is "one after"
                    let mut q = k.commit_qcs.values().next()?.clone();
                    q.message.view.number = validator::ViewNumber(u64::MAX);
                    s_new_view(sk, ReplicaNewView { justification: ProposalJustification::Commit(q) })
                }
                6 => {
                    let mut q = k.timeout_qcs.values().next()?.clone();
                    q.view.number = validator::ViewNumber(u64::MAX);
                    s_proposal(sk, LeaderProposal { proposal_payload: None, justification: ProposalJustification::Timeout(q) })
                }
                0 => s_commit(sk, ReplicaCommit { view: c.view(big), proposal: BlockHeader { number: validator::BlockNumber(big), payload: payload(rng, "abs").hash() } }),
                1 => s_timeout(sk, ReplicaTimeout { view: c.view(big), high_vote: Some(ReplicaCommit { view: c.view(big), proposal: BlockHeader { number: validator::BlockNumber(big), payload: payload(rng, "abs").hash() } }), high_qc: None }),
                2 => {
                    // a certificate with a bitmap of the wrong length and an absurd block number
                    let mut q = k.commit_qcs.values().next()?.clone();
                    q.signers.0.push(true);
                    q.message.proposal.number = validator::BlockNumber(big);
                    s_new_view(sk, ReplicaNewView { justification: ProposalJustification::Commit(q) })
                }
                3 => {
                    let mut q = k.timeout_qcs.values().next()?.clone();
                    q.map.clear();
                    s_new_view(sk, ReplicaNewView { justification: ProposalJustification::Timeout(q) })
                }
                _ => {
                    let mut q = k.commit_qcs.values().next()?.clone();
                    q.message.view.number = validator::ViewNumber(big - 1);
                    s_proposal(&c.sk[c.leader(big)], LeaderProposal { proposal_payload: Some(validator::Payload(vec![])), justification: ProposalJustification::Commit(q) })
                }
            };
            Some(Crafted { what: "byz-absurd", msgs: vec![(m, some_subset(rng, correct))], steer: None })
        }
    }
}

/// The poison of the `poisoned-laggard` scenario: a new-view for the view after `old` whose timeout certificate consists of the
/// honest timeout votes of `old` plus the Byzantine validators' own votes, which carry the newest commit certificate known.
pub fn poison_new_view(c: &Committee, k: &mut Knowledge, old: u64) -> Option<SignedMsg> {
    let b = (0..c.n()).find(|i| c.byz[*i])?;
    let newest = k.commit_qcs.values().next_back().cloned();
    let cc = c;
    let qc = assemble_timeout_qc(c, k, old, |_| ReplicaTimeout { view: cc.view(old), high_vote: None, high_qc: newest.clone() }, false)?;
    Some(s_new_view(&c.sk[b], ReplicaNewView { justification: ProposalJustification::Timeout(qc) }))
}
