//! `MonEngine`: the harness-owned execution layer / storage of one simulated node.
//! It is the observation point for everything the consensus component hands to storage
//! (`set_state`, `queue_next_block`) and the crash-injection point: a durable write can be made to
//! suspend (applied or not applied) so that the incarnation can be killed exactly there.
use std::sync::{
    atomic::{AtomicBool, AtomicU64, Ordering},
    Arc, Mutex,
};

use zksync_concurrency::{ctx, sync};
use zksync_consensus_bft as bft;
use zksync_consensus_engine::{BlockStoreState, EngineInterface, Last, Transaction};
use zksync_consensus_roles::validator;

use crate::log::{Ev, Log};

#[derive(Debug)]
pub struct Durable {
    pub state: validator::ReplicaState,
    pub blocks: Vec<validator::Block>,
}

/// Where to crash: at the `index`-th durable write of this node (1-based, counted over the whole
/// case), with the write applied or not.
#[derive(Clone, Copy, Debug, PartialEq, Eq)]
pub struct CrashAt {
    pub index: u64,
    pub apply: bool,
}

#[derive(Debug)]
pub struct NodeShared {
    pub idx: usize,
    pub genesis: validator::Genesis,
    pub first: validator::BlockNumber,
    pub durable: Mutex<Durable>,
    pub persisted: sync::watch::Sender<BlockStoreState>,
    /// receiver of the current incarnation's outbound channel
    pub outbound: Mutex<Option<ctx::channel::UnboundedReceiver<bft::ToNetworkMessage>>>,
    pub log: Arc<Log>,
    pub incarnation: AtomicU64,
    pub writes: AtomicU64,
    pub crash_at: Mutex<Option<CrashAt>>,
    pub at_gate: AtomicBool,
    pub payload_counter: AtomicU64,
    /// number of blocks for which persistence is withheld (0 = immediate)
    pub hold_persistence: AtomicBool,
    pub propose_mode: AtomicU64,
}

pub const PROPOSE_NORMAL: u64 = 0;
pub const PROPOSE_NEVER: u64 = 1; // honest-but-not-proposing (legit behaviour)
pub const PROPOSE_OVERSIZED: u64 = 2;

impl NodeShared {
    pub fn new(idx: usize, genesis: validator::Genesis, log: Arc<Log>) -> Arc<Self> {
        let first = genesis.first_block;
        Arc::new(Self {
            idx,
            genesis,
            first,
            durable: Mutex::new(Durable { state: validator::ReplicaState::default(), blocks: vec![] }),
            persisted: sync::watch::channel(BlockStoreState { first, last: None }).0,
            outbound: Mutex::new(None),
            log,
            incarnation: AtomicU64::new(0),
            writes: AtomicU64::new(0),
            crash_at: Mutex::new(None),
            at_gate: AtomicBool::new(false),
            payload_counter: AtomicU64::new(0),
            hold_persistence: AtomicBool::new(false),
            propose_mode: AtomicU64::new(PROPOSE_NORMAL),
        })
    }

    pub fn inc(&self) -> u64 {
        self.incarnation.load(Ordering::SeqCst)
    }

    /// Moves everything the node has emitted so far into the log, tagged with the durable replica
    /// state at the moment of observation ("what has left the node before this point?").
    pub fn drain_outbound(&self) {
        let mut g = self.outbound.lock().unwrap();
        let Some(rx) = g.as_mut() else { return };
        let mut got = vec![];
        while let Some(m) = rx.try_recv() {
            got.push(m.message);
        }
        drop(g);
        if got.is_empty() {
            return;
        }
        let durable = self.durable.lock().unwrap().state.clone();
        for msg in got {
            self.log.push(Ev::Out { node: self.idx, inc: self.inc(), msg, durable: durable.clone() });
        }
    }

    pub fn next_block(&self) -> validator::BlockNumber {
        self.persisted.borrow().next()
    }

    /// Returns true if this write is the crash point; the caller then must not return.
    fn write_point(&self) -> Option<CrashAt> {
        let n = self.writes.fetch_add(1, Ordering::SeqCst) + 1;
        let c = *self.crash_at.lock().unwrap();
        match c {
            Some(c) if c.index == n => Some(c),
            _ => None,
        }
    }

    async fn die_here(&self, ctx: &ctx::Ctx) -> ctx::Error {
        self.at_gate.store(true, Ordering::SeqCst);
        // the process "dies" inside the write: never return until the incarnation is killed
        ctx.canceled().await;
        ctx::Error::Canceled(ctx::Canceled)
    }

    fn apply_state(&self, state: &validator::ReplicaState) {
        self.durable.lock().unwrap().state = state.clone();
    }

    fn apply_block(&self, block: validator::Block) {
        let mut d = self.durable.lock().unwrap();
        d.blocks.push(block.clone());
        drop(d);
        self.persisted.send_modify(|p| p.last = Some(Last::from(&block)));
    }
}

#[derive(Debug, Clone)]
pub struct MonEngine(pub Arc<NodeShared>);

/// Payloads proposed by simulated nodes are self-describing; payloads starting with `BAD` are
/// refused by `verify_payload` (used by Byzantine leaders).
pub fn is_bad_payload(p: &validator::Payload) -> bool {
    p.0.starts_with(b"BAD")
}

#[async_trait::async_trait]
impl EngineInterface for MonEngine {
    async fn genesis(&self, _ctx: &ctx::Ctx) -> ctx::Result<validator::Genesis> {
        Ok(self.0.genesis.clone())
    }

    async fn get_validator_schedule(
        &self,
        _ctx: &ctx::Ctx,
        _number: validator::BlockNumber,
    ) -> ctx::Result<(validator::Schedule, validator::BlockNumber)> {
        Ok((self.0.genesis.validators_schedule.clone().unwrap(), self.0.genesis.first_block))
    }

    async fn get_pending_validator_schedule(
        &self,
        _ctx: &ctx::Ctx,
        _number: validator::BlockNumber,
    ) -> ctx::Result<Option<(validator::Schedule, validator::BlockNumber)>> {
        Ok(None)
    }

    fn persisted(&self) -> sync::watch::Receiver<BlockStoreState> {
        self.0.persisted.subscribe()
    }

    async fn get_block(&self, _ctx: &ctx::Ctx, number: validator::BlockNumber) -> ctx::Result<validator::Block> {
        let d = self.0.durable.lock().unwrap();
        let idx = number.0.checked_sub(self.0.first.0).ok_or_else(|| anyhow::anyhow!("not found"))?;
        Ok(d.blocks.get(idx as usize).ok_or_else(|| anyhow::anyhow!("not found"))?.clone())
    }

    async fn queue_next_block(&self, ctx: &ctx::Ctx, block: validator::Block) -> ctx::Result<()> {
        let s = &self.0;
        s.drain_outbound();
        let want = s.next_block();
        let crash = s.write_point();
        s.log.push(Ev::QueueBlock { node: s.idx, inc: s.inc(), block: block.clone(), want });
        if let Some(c) = crash {
            if c.apply && block.number() == want {
                s.apply_block(block);
            }
            return Err(s.die_here(ctx).await);
        }
        if block.number() < want {
            return Ok(());
        }
        if block.number() > want {
            return Err(anyhow::format_err!("got block {:?}, want {want:?}", block.number()).into());
        }
        while s.hold_persistence.load(Ordering::SeqCst) {
            // persistence stalled by the harness (lagging storage)
            if !ctx.is_active() {
                return Err(ctx::Canceled.into());
            }
            sync::yield_now().await;
        }
        s.apply_block(block);
        Ok(())
    }

    async fn verify_pregenesis_block(&self, _ctx: &ctx::Ctx, _block: &validator::PreGenesisBlock) -> ctx::Result<()> {
        Err(anyhow::format_err!("no pre-genesis blocks in this simulation").into())
    }

    async fn verify_payload(&self, _ctx: &ctx::Ctx, _number: validator::BlockNumber, payload: &validator::Payload) -> ctx::Result<()> {
        if is_bad_payload(payload) {
            return Err(anyhow::format_err!("invalid payload").into());
        }
        Ok(())
    }

    async fn propose_payload(&self, ctx: &ctx::Ctx, number: validator::BlockNumber) -> ctx::Result<validator::Payload> {
        let s = &self.0;
        match s.propose_mode.load(Ordering::SeqCst) {
            PROPOSE_NEVER => {
                ctx.canceled().await;
                return Err(ctx::Canceled.into());
            }
            PROPOSE_OVERSIZED => return Ok(validator::Payload(vec![7; crate::world::MAX_PAYLOAD + 1])),
            _ => {}
        }
        let k = s.payload_counter.fetch_add(1, Ordering::SeqCst);
        let mut p = format!("blk{}-node{}-inc{}-#{k}", number.0, s.idx, s.inc()).into_bytes();
        // size variety, deterministic
        let extra = (k as usize * 37 + s.idx * 11) % 200;
        p.extend(std::iter::repeat(b'.').take(extra));
        Ok(validator::Payload(p))
    }

    async fn get_state(&self, _ctx: &ctx::Ctx) -> ctx::Result<validator::ReplicaState> {
        Ok(self.0.durable.lock().unwrap().state.clone())
    }

    async fn set_state(&self, ctx: &ctx::Ctx, state: &validator::ReplicaState) -> ctx::Result<()> {
        let s = &self.0;
        // everything the node has emitted before this write is observed against the *previous* durable state
        s.drain_outbound();
        let crash = s.write_point();
        s.log.push(Ev::SetState { node: s.idx, inc: s.inc(), state: state.clone() });
        if let Some(c) = crash {
            if c.apply {
                s.apply_state(state);
            }
            return Err(s.die_here(ctx).await);
        }
        s.apply_state(state);
        Ok(())
    }

    async fn push_tx(&self, _ctx: &ctx::Ctx, _tx: Transaction) -> ctx::Result<bool> {
        Ok(true)
    }
}
