//! Shared plumbing of the verification harness: argument parsing, seeded PRNG,
//! evidence counters, violation/replay recording, panic capture.
//!
//! Nothing here depends on the repository under test.

use std::{
    collections::{BTreeMap, HashSet},
    hash::{Hash, Hasher},
    io::Write as _,
    panic::{self, AssertUnwindSafe},
    sync::Mutex,
    time::Instant,
};

pub use rand;
use rand::{rngs::StdRng, SeedableRng};
pub use serde_json::{self, json, Value};

/// Command line of every workload binary:
/// `<bin> --prop C07 --tier quick --seed 0 --shard 3 --nshards 16 --out /path/res.json [--replay file] [--budget-ms N]`
#[derive(Clone, Debug)]
pub struct Args {
    pub prop: String,
    pub tier: String,
    pub seed: u64,
    pub shard: u64,
    pub nshards: u64,
    pub out: Option<String>,
    pub replay: Option<String>,
    /// soft wall-clock budget for workloads that are volume-driven (milliseconds); it only bounds
    /// the amount of work, it never decides a verdict.
    pub budget_ms: u64,
    pub extra: BTreeMap<String, String>,
}

impl Args {
    pub fn parse() -> Self {
        let mut a = Args {
            prop: String::new(),
            tier: "quick".into(),
            seed: 0,
            shard: 0,
            nshards: 1,
            out: None,
            replay: None,
            budget_ms: 0,
            extra: BTreeMap::new(),
        };
        let v: Vec<String> = std::env::args().skip(1).collect();
        let mut i = 0;
        while i < v.len() {
            let k = v[i].clone();
            let val = v.get(i + 1).cloned().unwrap_or_default();
            match k.as_str() {
                "--prop" => a.prop = val,
                "--tier" => a.tier = val,
                "--seed" => a.seed = val.parse().expect("seed"),
                "--shard" => a.shard = val.parse().expect("shard"),
                "--nshards" => a.nshards = val.parse().expect("nshards"),
                "--out" => a.out = Some(val),
                "--replay" => a.replay = Some(val),
                "--budget-ms" => a.budget_ms = val.parse().expect("budget"),
                _ => {
                    a.extra.insert(k.trim_start_matches("--").to_string(), val);
                }
            }
            i += 2;
        }
        a
    }
    pub fn thorough(&self) -> bool {
        self.tier == "thorough"
    }
    /// pick by tier
    pub fn pick<T>(&self, quick: T, thorough: T) -> T {
        if self.thorough() {
            thorough
        } else {
            quick
        }
    }
    pub fn extra_u64(&self, k: &str) -> Option<u64> {
        self.extra.get(k).and_then(|s| s.parse().ok())
    }
}

/// Deterministic PRNG for (seed, shard, stream, case).
pub fn rng_for(seed: u64, shard: u64, stream: u64, case: u64) -> StdRng {
    let mut h = Fnv::default();
    (seed, shard, stream, case).hash(&mut h);
    StdRng::seed_from_u64(h.finish() ^ 0x9e37_79b9_7f4a_7c15)
}

/// FNV-1a 64 hasher: stable across runs and platforms (unlike `DefaultHasher` guarantees).
pub struct Fnv(u64);
impl Default for Fnv {
    fn default() -> Self {
        Fnv(0xcbf2_9ce4_8422_2325)
    }
}
impl Hasher for Fnv {
    fn finish(&self) -> u64 {
        // final avalanche
        let mut x = self.0;
        x ^= x >> 33;
        x = x.wrapping_mul(0xff51_afd7_ed55_8ccd);
        x ^= x >> 33;
        x
    }
    fn write(&mut self, bytes: &[u8]) {
        for b in bytes {
            self.0 ^= *b as u64;
            self.0 = self.0.wrapping_mul(0x0000_0100_0000_01b3);
        }
    }
}
pub fn hash_of<T: Hash>(t: &T) -> u64 {
    let mut h = Fnv::default();
    t.hash(&mut h);
    h.finish()
}
pub fn hash_bytes(b: &[u8]) -> u64 {
    let mut h = Fnv::default();
    h.write(b);
    h.finish()
}

#[derive(Clone, Debug)]
pub struct Violation {
    /// stable signature used to match known findings: `kind|location|class`
    pub signature: String,
    pub detail: String,
    pub replay: Value,
}

/// Result of one shard of one workload. Serialised to `--out`.
pub struct Report {
    pub prop: String,
    pub args: Args,
    pub start: Instant,
    pub evaluations: u64,
    pub counters: BTreeMap<String, u64>,
    pub maxima: BTreeMap<String, u64>,
    pub samples: Vec<Value>,
    pub max_samples: usize,
    pub hashes: HashSet<u64>,
    pub violations: Vec<Violation>,
    pub seen_sigs: BTreeMap<String, u64>,
    pub inconclusive: Vec<String>,
    pub notes: Vec<String>,
    pub rule: String,
}

impl Report {
    pub fn new(args: &Args) -> Self {
        Report {
            prop: args.prop.clone(),
            args: args.clone(),
            start: Instant::now(),
            evaluations: 0,
            counters: BTreeMap::new(),
            maxima: BTreeMap::new(),
            samples: vec![],
            max_samples: 6,
            hashes: HashSet::new(),
            violations: vec![],
            seen_sigs: BTreeMap::new(),
            inconclusive: vec![],
            notes: vec![],
            rule: String::new(),
        }
    }
    pub fn count(&mut self, k: &str) {
        *self.counters.entry(k.to_string()).or_default() += 1;
    }
    pub fn add(&mut self, k: &str, n: u64) {
        *self.counters.entry(k.to_string()).or_default() += n;
    }
    pub fn max(&mut self, k: &str, n: u64) {
        let e = self.maxima.entry(k.to_string()).or_default();
        if n > *e {
            *e = n;
        }
    }
    pub fn get(&self, k: &str) -> u64 {
        self.counters.get(k).copied().unwrap_or(0)
    }
    /// registers a distinct non-trivial case (by hash)
    pub fn distinct(&mut self, h: u64) {
        if self.hashes.len() < 4_000_000 {
            self.hashes.insert(h);
        }
    }
    pub fn sample(&mut self, v: Value) {
        if self.samples.len() < self.max_samples {
            self.samples.push(v);
        }
    }
    pub fn elapsed_ms(&self) -> u64 {
        self.start.elapsed().as_millis() as u64
    }
    /// true while the soft budget is not exhausted
    pub fn within_budget(&self) -> bool {
        self.args.budget_ms == 0 || self.elapsed_ms() < self.args.budget_ms
    }
    /// Records a violation; identical signatures are kept at most 3 times (count is kept).
    pub fn violation(&mut self, signature: impl Into<String>, detail: impl Into<String>, replay: Value) {
        let signature = signature.into();
        let n = self.seen_sigs.entry(signature.clone()).or_default();
        *n += 1;
        if *n <= 3 {
            self.violations.push(Violation {
                signature,
                detail: detail.into(),
                replay,
            });
        }
    }
    pub fn inconclusive(&mut self, why: impl Into<String>) {
        let w = why.into();
        if self.inconclusive.len() < 20 {
            self.inconclusive.push(w);
        }
    }
    pub fn to_json(&self) -> Value {
        json!({
            "property": self.prop,
            "tier": self.args.tier,
            "seed": self.args.seed,
            "shard": self.args.shard,
            "nshards": self.args.nshards,
            "evaluations": self.evaluations,
            "distinct_local": self.hashes.len(),
            "counters": self.counters,
            "maxima": self.maxima,
            "samples": self.samples,
            "rule": self.rule,
            "violations": self.violations.iter().map(|v| json!({
                "signature": v.signature, "detail": v.detail, "replay": v.replay,
            })).collect::<Vec<_>>(),
            "violation_counts": self.seen_sigs,
            "inconclusive": self.inconclusive,
            "notes": self.notes,
            "wall_ms": self.elapsed_ms(),
        })
    }
    /// Writes the report and terminates the process immediately (used when unwinding / dropping live
    /// objects of the code under test is not safe, e.g. a scope that never returns).
    pub fn finish_and_exit(&mut self) -> ! {
        let me = std::mem::replace(self, Report::new(&self.args.clone()));
        let code = me.finish();
        std::process::exit(code);
    }

    /// Writes the report (and the sidecar with the distinct-case hashes) and returns the exit code
    /// (0 held, 1 violated, 2 inconclusive) - the driver recomputes the verdict from the files.
    pub fn finish(self) -> i32 {
        let js = self.to_json();
        if let Some(out) = &self.args.out {
            std::fs::write(out, serde_json::to_vec_pretty(&js).unwrap()).expect("write report");
            let mut f = std::io::BufWriter::new(
                std::fs::File::create(format!("{out}.hashes")).expect("hashes"),
            );
            for h in &self.hashes {
                f.write_all(&h.to_le_bytes()).unwrap();
            }
            f.flush().unwrap();
        } else {
            println!("{}", serde_json::to_string_pretty(&js).unwrap());
        }
        if !self.violations.is_empty() {
            1
        } else if !self.inconclusive.is_empty() {
            2
        } else {
            0
        }
    }
}

// ---------------------------------------------------------------------------------------------
// panic capture

static LAST_PANIC: Mutex<Option<(String, String)>> = Mutex::new(None);

/// Installs a panic hook that remembers (location, message) of the most recent panic instead of
/// printing it. Call once at start-up.
pub fn install_quiet_panic_hook() {
    panic::set_hook(Box::new(|info| {
        let loc = info
            .location()
            .map(|l| format!("{}:{}", l.file(), l.line()))
            .unwrap_or_else(|| "?".into());
        let msg = if let Some(s) = info.payload().downcast_ref::<&str>() {
            s.to_string()
        } else if let Some(s) = info.payload().downcast_ref::<String>() {
            s.clone()
        } else {
            "<non-string panic>".into()
        };
        if std::env::var_os("VERIF_PANIC_TRACE").is_some() {
            eprintln!("[panic] {loc}: {msg}");
        }
        // keep the *first* panic since the last take: a scope re-raising a task's panic must not hide its origin
        let mut g = LAST_PANIC.lock().unwrap_or_else(|e| e.into_inner());
        let keep_existing = matches!(&*g, Some((_, m)) if !m.starts_with("one of the tasks panicked"));
        if !keep_existing {
            *g = Some((loc, msg));
        }
    }));
}

pub fn take_last_panic() -> Option<(String, String)> {
    LAST_PANIC.lock().unwrap_or_else(|e| e.into_inner()).take()
}

/// A caught panic: source location (path made repo-relative) and message.
#[derive(Clone, Debug)]
pub struct Panicked {
    pub location: String,
    pub message: String,
}

impl Panicked {
    /// Location with the line number (known findings are keyed on file:line).
    pub fn loc(&self) -> String {
        let l = &self.location;
        match l.find("/repo/") {
            Some(i) => l[i + 6..].to_string(),
            None => l.clone(),
        }
    }
}

/// Runs `f`, converting a panic into `Err(Panicked)`.
pub fn catch<T>(f: impl FnOnce() -> T) -> Result<T, Panicked> {
    let _ = take_last_panic();
    match panic::catch_unwind(AssertUnwindSafe(f)) {
        Ok(v) => Ok(v),
        Err(_) => {
            let (location, message) =
                take_last_panic().unwrap_or_else(|| ("?".into(), "?".into()));
            Err(Panicked { location, message })
        }
    }
}

pub fn hex(b: &[u8]) -> String {
    let mut s = String::with_capacity(b.len() * 2);
    for x in b {
        s.push_str(&format!("{x:02x}"));
    }
    s
}

pub fn unhex(s: &str) -> Vec<u8> {
    (0..s.len() / 2)
        .map(|i| u8::from_str_radix(&s[2 * i..2 * i + 2], 16).unwrap())
        .collect()
}
