//! E3: block-store stress (C08). Real `EngineManager` + `EngineManagerRunner` over a monitoring
//! `EngineInterface`; concurrent submitters (in order, out of order, duplicated, invalid, forked),
//! lagging / stalled / jumping persistence, pruning, failures and restarts.
use std::{
    collections::{BTreeMap, HashMap},
    sync::{
        atomic::{AtomicBool, AtomicU64, Ordering},
        Arc, Mutex,
    },
};

use rand::{rngs::StdRng, seq::SliceRandom, Rng};
use vcommon::{json, rng_for, Args, Report};
use zksync_concurrency::{ctx, scope, sync, time};
use zksync_consensus_engine::{BlockStoreState, EngineInterface, EngineManager, Last, Transaction};
use zksync_consensus_roles::validator::{self, testonly::Setup};

#[derive(Debug, Clone)]
struct Call {
    number: u64,
    hash: validator::PayloadHash,
    durable_next: u64,
    incarnation: u64,
    pregenesis: bool,
    /// length of `head_hist` when the call arrived
    hist_len: usize,
}

#[derive(Debug)]
struct Inner {
    genesis: validator::Genesis,
    persisted: sync::watch::Sender<BlockStoreState>,
    blocks: Mutex<BTreeMap<u64, validator::Block>>,
    pregenesis: HashMap<u64, validator::PreGenesisBlock>,
    calls: Mutex<Vec<Call>>,
    /// every value the durable head (`persisted.next`) has taken, in order; and where each manager incarnation started
    head_hist: Mutex<Vec<u64>>,
    inc_start: Mutex<HashMap<u64, usize>>,
    incarnation: AtomicU64,
    /// persistence mode: 0 immediate, 1 stalled (queue_next_block waits), 2 fail next call
    mode: AtomicU64,
    verify_called_for_pregenesis: AtomicU64,
    stop: AtomicBool,
    /// rotating committees (empty = static schedule in genesis): (schedule, activation block, the execution layer announces it
    /// as pending once its head has reached this block)
    epochs: Vec<(validator::Schedule, u64, u64)>,
    schedule_queries: AtomicU64,
}

#[derive(Debug, Clone)]
struct MonEngine(Arc<Inner>);

impl MonEngine {
    fn next(&self) -> u64 {
        self.0.persisted.borrow().next().0
    }
    /// Appends `b` iff it is exactly the next block; check and append are one atomic step (the side channel and the
    /// manager's persist task store concurrently on the multi-thread runtime).
    fn try_store(&self, b: validator::Block) -> bool {
        let mut blocks = self.0.blocks.lock().unwrap();
        let mut stored = false;
        self.0.persisted.send_if_modified(|p| {
            if p.next().0 != b.number().0 {
                return false;
            }
            p.last = Some(Last::from(&b));
            stored = true;
            self.0.head_hist.lock().unwrap().push(p.next().0);
            true
        });
        if stored {
            blocks.insert(b.number().0, b);
        }
        stored
    }
    /// side channel: the durable store jumps ahead by `k` blocks of the canonical chain
    fn jump(&self, chain: &[validator::Block], k: u64) -> u64 {
        let mut n = 0;
        for _ in 0..k {
            let next = self.next();
            let Some(b) = chain.iter().find(|b| b.number().0 == next) else { break };
            if self.try_store(b.clone()) {
                n += 1;
            }
        }
        n
    }
    fn prune(&self, first: u64) {
        let mut blocks = self.0.blocks.lock().unwrap();
        let keys: Vec<u64> = blocks.keys().copied().filter(|k| *k < first).collect();
        let mut pruned = false;
        self.0.persisted.send_if_modified(|s| {
            if s.first.0 >= first || s.next().0 <= first {
                return false;
            }
            s.first = validator::BlockNumber(first);
            pruned = true;
            true
        });
        if pruned {
            for k in keys {
                blocks.remove(&k);
            }
        }
    }
}

#[async_trait::async_trait]
impl EngineInterface for MonEngine {
    async fn genesis(&self, _ctx: &ctx::Ctx) -> ctx::Result<validator::Genesis> {
        Ok(self.0.genesis.clone())
    }
    async fn get_validator_schedule(&self, _ctx: &ctx::Ctx, n: validator::BlockNumber) -> ctx::Result<(validator::Schedule, validator::BlockNumber)> {
        if self.0.epochs.is_empty() {
            return Ok((self.0.genesis.validators_schedule.clone().unwrap(), self.0.genesis.first_block));
        }
        self.0.schedule_queries.fetch_add(1, Ordering::SeqCst);
        let e = self.0.epochs.iter().rposition(|(_, act, _)| *act <= n.0).unwrap_or(0);
        Ok((self.0.epochs[e].0.clone(), validator::BlockNumber(self.0.epochs[e].1)))
    }
    async fn get_pending_validator_schedule(&self, _ctx: &ctx::Ctx, n: validator::BlockNumber) -> ctx::Result<Option<(validator::Schedule, validator::BlockNumber)>> {
        if self.0.epochs.is_empty() {
            return Ok(None);
        }
        self.0.schedule_queries.fetch_add(1, Ordering::SeqCst);
        let e = self.0.epochs.iter().rposition(|(_, act, _)| *act <= n.0).unwrap_or(0);
        Ok(match self.0.epochs.get(e + 1) {
            Some((s, act, publish)) if n.0 >= *publish => Some((s.clone(), validator::BlockNumber(*act))),
            _ => None,
        })
    }
    fn persisted(&self) -> sync::watch::Receiver<BlockStoreState> {
        self.0.persisted.subscribe()
    }
    async fn get_block(&self, _ctx: &ctx::Ctx, number: validator::BlockNumber) -> ctx::Result<validator::Block> {
        Ok(self.0.blocks.lock().unwrap().get(&number.0).cloned().ok_or_else(|| anyhow::anyhow!("not found"))?)
    }
    async fn queue_next_block(&self, ctx: &ctx::Ctx, block: validator::Block) -> ctx::Result<()> {
        let want = self.next();
        self.0.calls.lock().unwrap().push(Call {
            number: block.number().0,
            hash: block.payload().hash(),
            durable_next: want,
            incarnation: self.0.incarnation.load(Ordering::SeqCst),
            pregenesis: matches!(block, validator::Block::PreGenesis(_)),
            hist_len: self.0.head_hist.lock().unwrap().len(),
        });
        loop {
            match self.0.mode.load(Ordering::SeqCst) {
                1 => {
                    if !ctx.is_active() {
                        return Err(ctx::Canceled.into());
                    }
                    ctx.sleep(time::Duration::milliseconds(1)).await?;
                }
                2 => {
                    self.0.mode.store(0, Ordering::SeqCst);
                    return Err(anyhow::format_err!("injected storage failure").into());
                }
                _ => break,
            }
        }
        loop {
            let want = self.next();
            if block.number().0 < want {
                return Ok(());
            }
            if block.number().0 > want {
                return Err(anyhow::format_err!("got block {}, want {want}", block.number().0).into());
            }
            if self.try_store(block.clone()) {
                return Ok(());
            }
        }
    }
    async fn verify_pregenesis_block(&self, _ctx: &ctx::Ctx, block: &validator::PreGenesisBlock) -> ctx::Result<()> {
        self.0.verify_called_for_pregenesis.fetch_add(1, Ordering::SeqCst);
        if self.0.pregenesis.get(&block.number.0) != Some(block) {
            return Err(anyhow::format_err!("invalid pre-genesis block").into());
        }
        Ok(())
    }
    async fn verify_payload(&self, _ctx: &ctx::Ctx, _n: validator::BlockNumber, _p: &validator::Payload) -> ctx::Result<()> {
        Ok(())
    }
    async fn propose_payload(&self, _ctx: &ctx::Ctx, _n: validator::BlockNumber) -> ctx::Result<validator::Payload> {
        Ok(validator::Payload(vec![]))
    }
    async fn get_state(&self, _ctx: &ctx::Ctx) -> ctx::Result<validator::ReplicaState> {
        Ok(validator::ReplicaState::default())
    }
    async fn set_state(&self, _ctx: &ctx::Ctx, _s: &validator::ReplicaState) -> ctx::Result<()> {
        Ok(())
    }
    async fn push_tx(&self, _ctx: &ctx::Ctx, _tx: Transaction) -> ctx::Result<bool> {
        Ok(true)
    }
}

/// A block offered to the store, with the generator's ground truth.
#[derive(Clone)]
struct Offer {
    block: validator::Block,
    class: &'static str,
    valid: bool,
}

struct Fixture {
    genesis: validator::Genesis,
    chain: Vec<validator::Block>,
    fork: Vec<validator::Block>,
    invalid: Vec<Offer>,
    epochs: Vec<(validator::Schedule, u64, u64)>,
    /// (rotating committees only) a block right after the end of the chain, certified by the committee of the LAST BUT ONE epoch
    /// for that epoch - i.e. by a committee whose term has expired. Offered once at the very end; its fate is recorded as an
    /// observation, not judged (see DESIGN.md 9.5).
    expired_committee_block: Option<validator::Block>,
}

fn certified(rng: &mut StdRng, genesis: validator::GenesisHash, epoch: u64, view: u64, number: u64, keys: &[validator::SecretKey], schedule: &validator::Schedule) -> validator::v2::FinalBlock {
    let payload = validator::Payload((0..rng.gen_range(1..60)).map(|_| rng.gen()).collect());
    let vote = validator::v2::ReplicaCommit {
        view: validator::v2::View { genesis, epoch: validator::EpochNumber(epoch), number: validator::ViewNumber(view) },
        proposal: validator::v2::BlockHeader { number: validator::BlockNumber(number), payload: payload.hash() },
    };
    let mut qc = validator::v2::CommitQC::new(vote.clone(), schedule);
    for k in keys {
        qc.add(&k.sign_msg(vote.clone()), genesis, validator::EpochNumber(epoch), schedule).expect("own vote");
    }
    validator::v2::FinalBlock::new(payload, qc)
}

/// A chain certified by 2-4 successive committees (validator rotation): the genesis has no static schedule, the execution layer
/// reports the schedule in force at a block and announces the next one as pending some blocks before it takes over.
fn make_epoch_fixture(rng: &mut StdRng, len: usize) -> Fixture {
    let first = [0u64, 0, 1, 5, 1000][rng.gen_range(0..5)];
    let genesis = validator::GenesisRaw {
        chain_id: validator::ChainId(rng.gen_range(1..1000)),
        fork_number: validator::ForkNumber(rng.gen_range(0..5)),
        first_block: validator::BlockNumber(first),
        protocol_version: validator::ProtocolVersion::CURRENT,
        validators_schedule: None,
    }
    .with_hash();
    let g = genesis.hash();
    let nep = rng.gen_range(2..=4usize);
    let mut committees: Vec<(Vec<validator::SecretKey>, validator::Schedule)> = vec![];
    for _ in 0..nep {
        // same size for every committee, so that a certificate of one committee is well-formed (bitmap length) for any other
        let keys: Vec<validator::SecretKey> = (0..3).map(|_| rng.gen()).collect();
        let sched = validator::Schedule::new(keys.iter().map(|k| validator::ValidatorInfo { key: k.public(), weight: rng.gen_range(1..4), leader: true }), validator::LeaderSelection::default()).unwrap();
        // keys in schedule order
        let keys = sched.iter().map(|v| keys.iter().find(|k| k.public() == v.key).unwrap().clone()).collect();
        committees.push((keys, sched));
    }
    // epoch boundaries
    let mut acts = vec![first];
    for e in 1..nep {
        let lo = acts[e - 1] + 3;
        let hi = first + (len * e / nep) as u64 + 2;
        acts.push(rng.gen_range(lo..lo.max(hi) + 1));
    }
    let mut epochs = vec![];
    for e in 0..nep {
        let publish = if e == 0 { first } else { rng.gen_range(acts[e - 1] + 1..acts[e]) };
        epochs.push((committees[e].1.clone(), acts[e], publish));
    }
    let epoch_of = |n: u64| acts.iter().rposition(|a| *a <= n).unwrap();
    let mut chain = vec![];
    let mut view = 0u64;
    for i in 0..len as u64 {
        let n = first + i;
        let e = epoch_of(n);
        if n == acts[e] {
            view = 0;
        }
        view += rng.gen_range(1..3);
        chain.push(validator::Block::FinalV2(certified(rng, g, e as u64, view, n, &committees[e].0, &committees[e].1)));
    }
    let mut invalid = vec![];
    let finals: Vec<validator::v2::FinalBlock> = chain.iter().filter_map(|b| if let validator::Block::FinalV2(f) = b { Some(f.clone()) } else { None }).collect();
    for _ in 0..60 {
        let f = finals.choose(rng).unwrap().clone();
        let n = f.number().0;
        let e = epoch_of(n);
        let other = (e + rng.gen_range(1..nep)) % nep;
        let (class, bad): (&'static str, validator::Block) = match rng.gen_range(0..7) {
            // right number and epoch, but certified by the committee of another epoch
            0 | 1 => ("certified-by-the-committee-of-another-epoch", certified(rng, g, e as u64, 3, n, &committees[other].0, &committees[other].1).into()),
            // a genuine certificate re-labelled with another (known) epoch
            2 => {
                let mut b = f.clone();
                b.justification.message.view.epoch = validator::EpochNumber(other as u64);
                ("certificate-relabelled-with-another-epoch", b.into())
            }
            3 => {
                let mut b = f.clone();
                b.payload.0.push(1);
                ("payload-hash-mismatch", b.into())
            }
            4 => {
                let mut b = f.clone();
                b.justification.message.view.epoch = validator::EpochNumber(77);
                ("unknown-epoch", b.into())
            }
            5 => {
                let mut b = f.clone();
                let k = b.justification.signers.len();
                for i in 1..k {
                    b.justification.signers.0.set(i, false);
                }
                ("certificate-below-quorum", b.into())
            }
            _ => {
                let mut b = f.clone();
                b.justification.signature = Default::default();
                ("bad-certificate-signature", b.into())
            }
        };
        invalid.push(Offer { block: bad, class, valid: false });
    }
    let after = first + len as u64;
    let expired = certified(rng, g, nep as u64 - 2, 1_000_000, after, &committees[nep - 2].0, &committees[nep - 2].1);
    Fixture { genesis, chain, fork: vec![], invalid, epochs, expired_committee_block: Some(expired.into()) }
}

fn make_fixture(rng: &mut StdRng, len: usize) -> Fixture {
    // edge-biased start of the chain: block numbers 0 and "no pre-genesis" are boundary cases of the store arithmetic
    let mut spec = validator::testonly::SetupSpec::new(rng, 3);
    match rng.gen_range(0..10) {
        0 | 1 | 2 => spec.first_pregenesis_block = validator::BlockNumber(0),
        3 => {
            spec.first_block = validator::BlockNumber(0);
            spec.first_pregenesis_block = validator::BlockNumber(0);
        }
        4 => spec.first_pregenesis_block = spec.first_block,
        _ => {}
    }
    let mut setup = Setup::from_spec(rng, spec);
    // the fork shares the pre-genesis blocks and the first `common` certified blocks
    let common = rng.gen_range(0..len / 2);
    setup.push_blocks_v2(rng, common);
    let mut fork_setup = setup.clone();
    setup.push_blocks_v2(rng, len - common);
    let fork_len = rng.gen_range(1..20usize);
    fork_setup.push_blocks_v2(rng, fork_len);
    let chain: Vec<validator::Block> = setup.blocks.clone();
    let fork: Vec<validator::Block> = fork_setup.blocks.iter().filter(|b| !chain.contains(b)).cloned().collect();
    let mut invalid = vec![];
    let finals: Vec<&validator::v2::FinalBlock> = chain.iter().filter_map(|b| if let validator::Block::FinalV2(f) = b { Some(f) } else { None }).collect();
    for _ in 0..40 {
        let f = (*finals.choose(rng).unwrap()).clone();
        let (class, bad): (&'static str, validator::Block) = match rng.gen_range(0..6) {
            0 => {
                let mut b = f.clone();
                b.payload.0.push(1);
                ("payload-hash-mismatch", b.into())
            }
            1 => {
                let mut b = f.clone();
                b.justification.signature = Default::default();
                ("bad-certificate-signature", b.into())
            }
            2 => {
                let mut b = f.clone();
                b.justification.message.view.epoch = validator::EpochNumber(7);
                ("unknown-epoch", b.into())
            }
            3 => {
                let mut b = f.clone();
                let n = b.justification.signers.len();
                for i in 1..n {
                    b.justification.signers.0.set(i, false);
                }
                ("certificate-below-quorum", b.into())
            }
            4 => {
                // half of them exactly at the first block of the genesis (the boundary of the pre-genesis range); the execution layer of
                // the harness vouches for all of them (see `Inner::pregenesis`), so the manager's own bound is the only guard
                let f = if rng.gen_bool(0.5) { (*finals[0]).clone() } else { f.clone() };
                let mut payload = f.payload.clone();
                if rng.gen_bool(0.5) {
                    payload.0.push(7);
                }
                ("pre-genesis-number-at-or-after-first-block", validator::PreGenesisBlock { number: f.number(), payload, justification: validator::Justification(vec![1, 2, 3]) }.into())
            }
            _ => {
                // wrong content for a genuine pre-genesis number
                match chain.iter().find_map(|b| if let validator::Block::PreGenesis(p) = b { Some(p.clone()) } else { None }) {
                    Some(mut p) => {
                        p.payload.0.push(9);
                        ("wrong-pre-genesis-content", p.into())
                    }
                    None => {
                        let mut b = f.clone();
                        b.payload.0.clear();
                        ("payload-hash-mismatch", b.into())
                    }
                }
            }
        };
        invalid.push(Offer { block: bad, class, valid: false });
    }
    Fixture { genesis: setup.genesis.clone(), chain, fork, invalid, epochs: vec![], expired_committee_block: None }
}

struct Probe {
    /// first payload observed per number (read-backs and submissions must agree forever)
    seen: Mutex<BTreeMap<u64, validator::PayloadHash>>,
    last_persisted_next: AtomicU64,
    last_queued_next: AtomicU64,
    violations: Mutex<Vec<(String, String)>>,
    readbacks: AtomicU64,
    max_lag: AtomicU64,
    max_queued_span: AtomicU64,
}

impl Probe {
    fn fail(&self, sig: &str, detail: String) {
        let mut v = self.violations.lock().unwrap();
        if v.iter().filter(|x| x.0 == sig).count() < 3 {
            v.push((sig.to_string(), detail));
        }
    }

    async fn check(&self, ctx: &ctx::Ctx, m: &EngineManager, engine: &MonEngine, valid: &HashMap<(u64, validator::PayloadHash), ()>, rng_pick: u64) {
        // read persisted first, then queued: both only move forward, so p.next <= q.next must hold
        let p = m.persisted();
        let q = m.queued();
        if p.next() > q.next() {
            self.fail("persisted-ahead-of-queued", format!("persisted.next {} > queued.next {}", p.next().0, q.next().0));
        }
        if q.first < p.first {
            self.fail("queued-starts-before-persisted", format!("queued.first {} < persisted.first {}", q.first.0, p.first.0));
        }
        let lp = self.last_persisted_next.fetch_max(p.next().0, Ordering::SeqCst);
        if p.next().0 < lp {
            self.fail("persisted-range-shrank", format!("persisted.next went from {lp} to {}", p.next().0));
        }
        let lq = self.last_queued_next.fetch_max(q.next().0, Ordering::SeqCst);
        if q.next().0 < lq {
            self.fail("queued-range-shrank", format!("queued.next went from {lq} to {}", q.next().0));
        }
        self.max_lag.fetch_max(q.next().0.saturating_sub(p.next().0), Ordering::SeqCst);
        self.max_queued_span.fetch_max(q.next().0.saturating_sub(q.first.0), Ordering::SeqCst);
        // read-back: both boundaries plus a pseudo-random number inside the queued range
        if q.last.is_none() {
            return;
        }
        let (lo, hi) = (q.first.0, q.next().0 - 1);
        for n in [lo, hi, lo + rng_pick % (hi - lo + 1), p.next().0.min(hi)] {
            self.readbacks.fetch_add(1, Ordering::SeqCst);
            match m.get_block(ctx, validator::BlockNumber(n)).await {
                Ok(Some(b)) => {
                    if b.number().0 != n {
                        self.fail("read-back-wrong-number", format!("asked for {n}, got {}", b.number().0));
                    }
                    let h = b.payload().hash();
                    if !valid.contains_key(&(n, h)) {
                        self.fail("unverified-block-in-store", format!("block {n} read back with a payload that is neither the canonical nor the certified fork block"));
                    }
                    let mut seen = self.seen.lock().unwrap();
                    let first = *seen.entry(n).or_insert(h);
                    if first != h {
                        self.fail("block-substituted", format!("block {n} read back with a different payload than before"));
                    }
                }
                Ok(None) | Err(ctx::Error::Internal(_)) => {
                    // legitimate only if it was pruned meanwhile; the pruning floor is the storage's own (the manager
                    // learns about it asynchronously)
                    let q2 = m.queued();
                    let floor = engine.0.persisted.borrow().first.0;
                    if q2.contains(validator::BlockNumber(n)) && n >= q2.first.0 && n >= floor {
                        self.fail("available-block-cannot-be-read", format!("block {n} is within queued range [{}, {}] but get_block did not return it (persisted.next {})", q2.first.0, q2.next().0 - 1, m.persisted().next().0));
                    }
                }
                Err(ctx::Error::Canceled(_)) => {}
            }
        }
    }
}

fn run_case(rep: &mut Report, args: &Args, case: u64, multi: bool) {
    let mut rng = rng_for(args.seed, args.shard, 8, case);
    let len = rng.gen_range(110..260usize);
    let rotating = case % 3 == 2;
    let fx = if rotating { make_epoch_fixture(&mut rng, len) } else { make_fixture(&mut rng, len) };
    let first_stored = fx.chain.first().map(|b| b.number()).unwrap_or(fx.genesis.first_block);
    let engine = MonEngine(Arc::new(Inner {
        epochs: fx.epochs.clone(),
        schedule_queries: AtomicU64::new(0),
        genesis: fx.genesis.clone(),
        persisted: sync::watch::channel(BlockStoreState { first: first_stored, last: None }).0,
        blocks: Mutex::default(),
        // what the execution layer vouches for: the genuine pre-genesis blocks and, on purpose, externally justified blocks at / after
        // the first block of the genesis (EngineInterface::verify_pregenesis_block is not required to know the genesis bound)
        pregenesis: fx.chain.iter().chain(fx.invalid.iter().filter(|o| o.class == "pre-genesis-number-at-or-after-first-block").map(|o| &o.block)).filter_map(|b| if let validator::Block::PreGenesis(p) = b { Some((p.number.0, p.clone())) } else { None }).collect(),
        calls: Mutex::default(),
        head_hist: Mutex::new(vec![first_stored.0]),
        inc_start: Mutex::default(),
        incarnation: AtomicU64::new(0),
        mode: AtomicU64::new(0),
        verify_called_for_pregenesis: AtomicU64::new(0),
        stop: AtomicBool::new(false),
    }));
    let mut valid: HashMap<(u64, validator::PayloadHash), ()> = HashMap::new();
    for b in fx.chain.iter().chain(fx.fork.iter()).chain(fx.expired_committee_block.iter()) {
        valid.insert((b.number().0, b.payload().hash()), ());
    }
    let probe = Probe { seen: Mutex::default(), last_persisted_next: AtomicU64::new(0), last_queued_next: AtomicU64::new(0), violations: Mutex::default(), readbacks: AtomicU64::new(0), max_lag: AtomicU64::new(0), max_queued_span: AtomicU64::new(0) };
    let rt = if multi { tokio::runtime::Builder::new_multi_thread().worker_threads(4).enable_time().build().unwrap() } else { tokio::runtime::Builder::new_current_thread().enable_time().build().unwrap() };
    let phases = rng.gen_range(2..5);
    // a validly certified fork and a side channel that persists canonical blocks cannot coexist in one world:
    // a case offers either fork blocks or side-channel jumps
    let with_fork = rng.gen_bool(0.5) && !rotating;
    let counters: Mutex<BTreeMap<String, u64>> = Mutex::default();
    let bump = |k: &str| *counters.lock().unwrap().entry(k.to_string()).or_default() += 1;
    let last_number = fx.chain.last().unwrap().number().0;
    if first_stored.0 == 0 {
        bump("chains_starting_at_block_0");
    }
    if rotating {
        bump("cases_with_rotating_committees");
        *counters.lock().unwrap().entry("committee_epochs".to_string()).or_default() += fx.epochs.len() as u64;
    }
    if fx.genesis.first_block == first_stored {
        bump("chains_without_pregenesis_blocks");
    }
    rt.block_on(async {
        let root = ctx::root();
        for phase in 0..phases {
            let last_phase = phase + 1 == phases;
            let inc = engine.0.incarnation.fetch_add(1, Ordering::SeqCst) + 1;
            engine.0.inc_start.lock().unwrap().insert(inc, engine.0.head_hist.lock().unwrap().len());
            engine.0.mode.store(0, Ordering::SeqCst);
            engine.0.stop.store(false, Ordering::SeqCst);
            // the monotonicity floors are per manager incarnation (a restart forgets the unpersisted queue)
            probe.last_queued_next.store(0, Ordering::SeqCst);
            // blocks that were queued but not durable are forgotten by a restart: only durable numbers stay bound
            {
                let d = engine.next();
                probe.seen.lock().unwrap().retain(|n, _| *n < d);
            }
            let (manager, runner) = match EngineManager::new(&root, Box::new(engine.clone()), if rotating { time::Duration::milliseconds(2) } else { time::Duration::seconds(1) }).await {
                Ok(x) => x,
                Err(e) => {
                    probe.fail("manager-start-failed", format!("{e:?}"));
                    return;
                }
            };
            bump("manager_incarnations");
            let seed = rng.gen::<u64>();
            let nsub = rng.gen_range(4..=12usize);
            let (fx, engine, probe, valid, manager) = (&fx, &engine, &probe, &valid, &manager);
            let bump = &bump;
            let res: Result<(), ctx::Error> = scope::run!(&root, |ctx, s| async move {
                let runner_failed = Arc::new(AtomicBool::new(false));
                {
                    let rf = runner_failed.clone();
                    s.spawn_bg(async move {
                        if runner.run(ctx).await.is_err() {
                            rf.store(true, Ordering::SeqCst);
                        }
                        Ok(())
                    });
                }
                // submitters
                let mut handles = vec![];
                for sub in 0..nsub {
                    let mut r = rng_for(seed, sub as u64, 81, 0);
                    handles.push(s.spawn(async move {
                        // each submitter walks the canonical chain from the current head in its own slightly shuffled order,
                        // interleaving duplicates, invalid and fork blocks
                        let mut pos = 0usize;
                        let mut rounds = 0;
                        while !engine.0.stop.load(Ordering::SeqCst) && (last_phase || rounds < 4000) {
                            rounds += 1;
                            let head = manager.queued().next().0;
                            let offer: Offer = match r.gen_range(0..20) {
                                0 | 1 => fx.invalid.choose(&mut r).unwrap().clone(),
                                2 if with_fork => match fx.fork.choose(&mut r) {
                                    Some(b) => Offer { block: b.clone(), class: "fork", valid: true },
                                    None => continue,
                                },
                                3 => Offer { block: fx.chain.choose(&mut r).unwrap().clone(), class: "random-canonical", valid: true },
                                _ => {
                                    // near the head: the needed one, a few ahead (waits), or behind (duplicate)
                                    let want = head as i64 + [0i64, 0, 0, 1, 2, 5, -1, -3][r.gen_range(0..8)];
                                    match fx.chain.iter().find(|b| b.number().0 as i64 == want) {
                                        Some(b) => Offer { block: b.clone(), class: "near-head", valid: true },
                                        None => {
                                            pos += 1;
                                            if head > last_number { break; }
                                            continue;
                                        }
                                    }
                                }
                            };
                            let c = ctx.with_timeout(time::Duration::milliseconds(r.gen_range(1..20)));
                            let before = manager.queued().next().0;
                            let res = manager.queue_block(&c, offer.block.clone()).await;
                            match (&res, offer.valid) {
                                (Ok(()), false) => {
                                    // an invalid block must never be accepted: Ok() is only returned after verification
                                    probe.fail("invalid-block-accepted", format!("queue_block returned Ok for a block of class {}", offer.class));
                                }
                                (Ok(()), true) => bump(&format!("accepted_{}", offer.class)),
                                (Err(ctx::Error::Canceled(_)), _) => bump("submissions_timed_out_waiting_for_gap"),
                                (Err(_), true) => bump(&format!("refused_valid_{}", offer.class)),
                                (Err(_), false) => bump(&format!("refused_{}", offer.class)),
                            }
                            let _ = (before, pos);
                            if r.gen_bool(0.3) {
                                tokio::task::yield_now().await;
                            }
                        }
                        Ok(())
                    }));
                }
                // prober
                s.spawn_bg(async move {
                    let mut k = 0u64;
                    while ctx.is_active() {
                        k += 1;
                        probe.check(ctx, manager, engine, valid, k.wrapping_mul(0x9e37_79b9)).await;
                        if ctx.sleep(time::Duration::microseconds(200)).await.is_err() {
                            break;
                        }
                    }
                    Ok(())
                });
                // controller: persistence modes, jumps, pruning, failures
                let mut r = rng_for(seed, 999, 82, 0);
                // some phases stall persistence for their whole duration, so that far more blocks than the cache
                // capacity (100) are queued but not persisted
                let long_stall = !last_phase && r.gen_bool(if phase == 0 { 0.6 } else { 0.4 });
                // a long stall ends on a logical condition: more unpersisted blocks queued than the cache holds (or the chain is
                // exhausted); the wall-clock budget is only a generous upper bound
                let stall_target = r.gen_range(101..140u64);
                if long_stall {
                    engine.0.mode.store(1, Ordering::SeqCst);
                    bump("long_stall_phases");
                }
                let budget_ms = if last_phase { 120_000 } else if long_stall { 8_000 } else { r.gen_range(20..250) };
                let t0 = std::time::Instant::now();
                loop {
                    if ctx.sleep(time::Duration::milliseconds(r.gen_range(1..15))).await.is_err() {
                        break;
                    }
                    if runner_failed.load(Ordering::SeqCst) {
                        bump("runner_ended_with_error");
                        break;
                    }
                    if last_phase {
                        engine.0.mode.store(0, Ordering::SeqCst);
                        if engine.next() > last_number {
                            break;
                        }
                    } else if !long_stall {
                        match r.gen_range(0..10) {
                            0 | 1 => {
                                engine.0.mode.store(1, Ordering::SeqCst);
                                bump("persistence_stalled");
                            }
                            2 | 3 | 4 => engine.0.mode.store(0, Ordering::SeqCst),
                            5 if !with_fork => {
                                let n = engine.jump(&fx.chain, r.gen_range(1..30));
                                if n > 0 {
                                    bump("side_channel_jumps");
                                }
                            }
                            6 => {
                                let next = engine.next();
                                let first = engine.0.persisted.borrow().first.0;
                                if next > first + 5 {
                                    engine.prune(r.gen_range(first..next - 2));
                                    bump("prunes");
                                }
                            }
                            7 => {
                                engine.0.mode.store(2, Ordering::SeqCst);
                                bump("storage_failures_injected");
                            }
                            _ => {}
                        }
                    }
                    if long_stall {
                        let q = manager.queued().next().0;
                        if q.saturating_sub(engine.next()) >= stall_target || q > last_number {
                            bump("long_stalls_beyond_cache_capacity");
                            if engine.0.blocks.lock().unwrap().is_empty() {
                                bump("long_stalls_beyond_cache_capacity_on_empty_store");
                            }
                            // keep the backlog for a few more probes before the phase ends
                            for _ in 0..20 {
                                probe.check(ctx, manager, engine, valid, r.gen()).await;
                            }
                            break;
                        }
                    }
                    if t0.elapsed().as_millis() as u64 > budget_ms {
                        break;
                    }
                }
                engine.0.stop.store(true, Ordering::SeqCst);
                for h in handles {
                    let _ = h.join(ctx).await;
                }
                // final probes at the end of the phase
                probe.check(ctx, manager, engine, valid, 7).await;
                if let (true, Some(b)) = (last_phase && engine.next() > last_number, &fx.expired_committee_block) {
                    // observation only: a block past the end of the chain certified by a committee whose term has expired
                    let r = manager.queue_block(&ctx.with_timeout(time::Duration::milliseconds(100)), b.clone()).await;
                    bump(if r.is_ok() { "observation_block_of_an_expired_committee_accepted" } else { "observation_block_of_an_expired_committee_refused" });
                }
                if last_phase && engine.next() <= last_number && t0.elapsed().as_millis() as u64 > budget_ms {
                    // wall-clock watchdog: never a verdict
                    probe.fail("INCONCLUSIVE-watchdog", format!("final phase did not finish within {budget_ms} ms"));
                } else if last_phase && engine.next() <= last_number {
                    probe.fail("valid-chain-not-persisted-at-quiescence", format!("durable head {} after the final phase, chain ends at {last_number}; queued.next {}", engine.next(), manager.queued().next().0));
                }
                Ok(())
            })
            .await;
            if let Err(ctx::Error::Internal(e)) = res {
                probe.fail("phase-failed", format!("{e:#}"));
            }
        }
    });
    drop(rt);
    // ---- offline checks over the call log
    let calls = engine.0.calls.lock().unwrap().clone();
    rep.add("queue_next_block_calls", calls.len() as u64);
    let mut prev: Option<(u64, u64, usize)> = None; // (incarnation, number, head history length at the call)
    let mut by_number: BTreeMap<(u64, u64), validator::PayloadHash> = BTreeMap::new();
    let replay = json!({"case": case, "multi": multi});
    for c in &calls {
        // "each submitted block directly follows the previously submitted one or the current durable head": the head the manager
        // can know of is any value the durable head had between its previous hand-off (or its start) and this call - the side
        // channel moves the head concurrently and the manager learns of it asynchronously.
        let hist = engine.0.head_hist.lock().unwrap();
        let (follows_prev, from) = match prev {
            Some((inc, n, hl)) if inc == c.incarnation => (c.number == n + 1, hl),
            _ => (false, *engine.0.inc_start.lock().unwrap().get(&c.incarnation).unwrap_or(&1)),
        };
        let in_order = follows_prev || hist[from.saturating_sub(1)..c.hist_len.min(hist.len())].contains(&c.number);
        drop(hist);
        if !in_order {
            rep.violation("storage-handoff-out-of-order||".to_string(), format!("block {} handed to storage after {:?} while the durable head expects {}", c.number, prev.map(|p| (p.0, p.1)), c.durable_next), replay.clone());
        }
        if !valid.contains_key(&(c.number, c.hash)) {
            rep.violation("unverified-block-handed-to-storage||".to_string(), format!("block {} (pregenesis={}) handed to storage is not one of the verified blocks", c.number, c.pregenesis), replay.clone());
        }
        // (a hand-off that never became durable binds nothing across a restart: a certified fork block may follow)
        if let Some(h) = by_number.get(&(c.incarnation, c.number)) {
            if *h != c.hash {
                rep.violation("block-substituted||storage".to_string(), format!("two different blocks handed to storage for number {} by one manager incarnation", c.number), replay.clone());
            }
        } else {
            by_number.insert((c.incarnation, c.number), c.hash);
        }
        prev = Some((c.incarnation, c.number, c.hist_len));
    }
    // the durable store is a contiguous chain of verified blocks
    let blocks = engine.0.blocks.lock().unwrap();
    let mut expect = None;
    for (n, b) in blocks.iter() {
        if let Some(e) = expect {
            if *n != e {
                rep.violation("gap-in-durable-store||".to_string(), format!("durable store jumps from {} to {n}", e - 1), replay.clone());
            }
        }
        expect = Some(n + 1);
        if !valid.contains_key(&(*n, b.payload().hash())) {
            rep.violation("unverified-block-in-durable-store||".to_string(), format!("block {n}"), replay.clone());
        }
    }
    for (sig, detail) in probe.violations.lock().unwrap().iter() {
        if sig.starts_with("INCONCLUSIVE") {
            rep.inconclusive(detail.clone());
            continue;
        }
        rep.violation(format!("{sig}||{}", if multi { "multi-thread" } else { "current-thread" }), detail.clone(), replay.clone());
    }
    for (k, v) in counters.lock().unwrap().iter() {
        rep.add(k, *v);
    }
    rep.add("read_backs", probe.readbacks.load(Ordering::SeqCst));
    rep.max("max_queued_minus_persisted", probe.max_lag.load(Ordering::SeqCst));
    rep.max("max_queued_span", probe.max_queued_span.load(Ordering::SeqCst));
    rep.add("pregenesis_verifications", engine.0.verify_called_for_pregenesis.load(Ordering::SeqCst));
    rep.evaluations += 1;
    rep.count(if multi { "cases_multi_thread" } else { "cases_current_thread" });
    rep.distinct(vcommon::hash_of(&(case, multi, calls.iter().map(|c| (c.number, c.durable_next)).collect::<Vec<_>>())));
    if rep.samples.len() < rep.max_samples {
        rep.sample(json!({"case": case, "chain_len": fx.chain.len(), "fork_len": fx.fork.len(), "phases": phases, "storage_handoffs": calls.len(),
            "first_handoffs(number,durable_next)": calls.iter().take(12).map(|c| (c.number, c.durable_next)).collect::<Vec<_>>(),
            "max_queued_minus_persisted": probe.max_lag.load(Ordering::SeqCst)}));
    }
}

fn main() {
    let args = Args::parse();
    vcommon::install_quiet_panic_hook();
    let mut rep = Report::new(&args);
    rep.rule = "one evaluation = one stress case: a certified chain of 110-260 blocks (+ pre-genesis blocks, a certified fork, 40 invalid variants) offered by 4-12 concurrent \
                submitters to the real EngineManager over 2-4 manager incarnations with stalled/failing/jumping/pruned persistence; invariants probed continuously, the \
                storage hand-off log checked offline; distinct = distinct hand-off sequences"
        .into();
    let n: u64 = args.extra_u64("cases").unwrap_or(args.pick(6, 150));
    let only: Option<u64> = args.replay.as_ref().map(|p| {
        let v: vcommon::Value = vcommon::serde_json::from_slice(&std::fs::read(p).unwrap()).unwrap();
        v["replay"]["case"].as_u64().unwrap()
    });
    for case in 0..n {
        if let Some(o) = only { if o != case { continue; } } else if !rep.within_budget() { rep.count("stopped_by_budget"); break; }
        match vcommon::catch(|| {
            let mut r = Report::new(&args);
            run_case(&mut r, &args, case, case % 2 == 1);
            r
        }) {
            Ok(r) => {
                rep.evaluations += r.evaluations;
                for (k, v) in r.counters { rep.add(&k, v); }
                for (k, v) in r.maxima { rep.max(&k, v); }
                for v in r.violations { rep.violation(v.signature, v.detail, v.replay); }
                for w in r.inconclusive { rep.inconclusive(w); }
                for s in r.samples { rep.sample(s); }
                for h in r.hashes { rep.distinct(h); }
            }
            Err(p) => rep.violation(format!("panic|{}|", p.loc()), format!("case {case} panicked: {}", p.message), json!({"case": case})),
        }
    }
    std::process::exit(rep.finish());
}
