//! C09 - wire encoding is lossless and canonical.
//! Oracles: round trip; canonical bytes equal an independently implemented canonical encoder; every
//! alternative valid serialisation (independent re-serialiser: fields shuffled at every level,
//! repeated scalars packed/unpacked/chunked, over-long varint values) decodes to the same value and
//! normalises to the same canonical bytes; equal values built in different ways encode identically.
use std::{fmt::Debug, hash::Hasher};

use bit_vec::BitVec;
use prost_reflect::{DescriptorPool, MessageDescriptor, ReflectMessage};
use rand::{seq::SliceRandom, Rng};
use vcommon::{catch, hex, json, rng_for, Args, Fnv, Report};
use zksync_concurrency::{limiter, time};
use zksync_consensus_roles::{node, validator};
use zksync_protobuf::{self as zp, ProtoFmt};

use vwire::{self as wire, Node, Style};

const STYLES: [Style; 5] = [
    Style { shuffle: true, packing: 0, overlong_varints: false },
    Style { shuffle: true, packing: 1, overlong_varints: false },
    Style { shuffle: false, packing: 2, overlong_varints: false },
    Style { shuffle: true, packing: 3, overlong_varints: false },
    Style { shuffle: true, packing: 3, overlong_varints: true },
];

fn fail(rep: &mut Report, kind: &str, ty: &str, detail: String, bytes: &[u8]) {
    rep.violation(format!("{kind}|{ty}|"), detail, json!({"type": ty, "bytes": hex(&bytes[..bytes.len().min(4096)])}));
}

/// All checks for one value of one type.
fn check_value<T: ProtoFmt + PartialEq + Debug>(rep: &mut Report, ty: &str, x: &T, rng: &mut impl Rng) {
    rep.evaluations += 1;
    rep.count(&format!("values_{ty}"));
    let r = catch(|| {
        let e = zp::encode(x);
        let c = zp::canonical(x);
        (e, c)
    });
    let (e, c) = match r {
        Ok(v) => v,
        Err(p) => {
            rep.violation(format!("panic|{}|encode:{ty}", p.loc()), format!("encode panicked: {} on {x:?}", p.message), json!({"type": ty}));
            return;
        }
    };
    if e != c {
        fail(rep, "encode-differs-from-canonical", ty, format!("{x:?}"), &e);
    }
    let desc = <T as ProtoFmt>::Proto::default().descriptor();
    match catch(|| zp::decode::<T>(&e)) {
        Ok(Ok(y)) => {
            if &y != x {
                fail(rep, "roundtrip-changed-value", ty, format!("sent {x:?} got {y:?}"), &e);
            }
        }
        Ok(Err(err)) => fail(rep, "roundtrip-decode-error", ty, format!("{err:#} for {x:?}"), &e),
        Err(p) => rep.violation(format!("panic|{}|decode:{ty}", p.loc()), format!("decode panicked: {}", p.message), json!({"type": ty, "bytes": hex(&e)})),
    }
    // independent canonical encoder
    let tree = match wire::parse(&e, &desc) {
        Ok(t) => t,
        Err(err) => {
            fail(rep, "oracle-cannot-parse-encoding", ty, err, &e);
            return;
        }
    };
    let mine = wire::canonical(&tree);
    if mine != e {
        fail(rep, "not-canonical", ty, format!("encode() is not the canonical form of its own content: {} vs oracle {}", hex(&e[..e.len().min(200)]), hex(&mine[..mine.len().min(200)])), &e);
    }
    let mut h = Fnv::default();
    h.write(ty.as_bytes());
    wire::shape(&tree, &mut h);
    rep.distinct(h.finish());
    // alternative serialisations
    for st in STYLES {
        let a = wire::emit(&tree, &desc, st, rng);
        rep.count("alternative_serialisations");
        if a != e {
            rep.count("alternative_serialisations_differing_from_canonical");
        }
        match catch(|| zp::decode::<T>(&a)) {
            Ok(Ok(y)) => {
                if &y != x {
                    fail(rep, "alt-serialisation-decodes-differently", ty, format!("style {st:?}: {x:?} vs {y:?}"), &a);
                }
            }
            Ok(Err(err)) => fail(rep, "alt-serialisation-rejected", ty, format!("style {st:?}: {err:#}"), &a),
            Err(p) => rep.violation(format!("panic|{}|decode-alt:{ty}", p.loc()), p.message, json!({"type": ty, "bytes": hex(&a)})),
        }
        match catch(|| zp::canonical_raw(&a, &desc)) {
            Ok(Ok(n)) => {
                if n != e {
                    fail(rep, "alt-serialisation-normalises-differently", ty, format!("style {st:?}"), &a);
                }
            }
            Ok(Err(err)) => fail(rep, "alt-serialisation-not-normalisable", ty, format!("style {st:?}: {err:#}"), &a),
            Err(p) => rep.violation(format!("panic|{}|canonical_raw:{ty}", p.loc()), p.message, json!({"type": ty, "bytes": hex(&a)})),
        }
    }
    if rep.samples.len() < rep.max_samples && rng.gen_bool(0.02) {
        let dbg = format!("{x:?}");
        rep.sample(json!({"type": ty, "value": &dbg[..dbg.len().min(300)], "canonical_hex": hex(&e[..e.len().min(120)]), "len": e.len()}));
    }
}

// ------------------------------------------------------------------------------------------------
// edge-biased generators

fn edge_u64(rng: &mut impl Rng) -> u64 {
    match rng.gen_range(0..8) {
        0 => 0,
        1 => 1,
        2 => u64::MAX,
        3 => u64::MAX - 1,
        4 => 1 << rng.gen_range(0..64),
        5 => rng.gen_range(0..300),
        _ => rng.gen(),
    }
}

fn bytes(rng: &mut impl Rng) -> Vec<u8> {
    let n = match rng.gen_range(0..6) {
        0 => 0,
        1 => 1,
        2 => rng.gen_range(0..40),
        3 => 127 + rng.gen_range(0..3),
        _ => rng.gen_range(0..600),
    };
    (0..n).map(|_| rng.gen()).collect()
}

fn bitvec(rng: &mut impl Rng) -> BitVec {
    let n = rng.gen_range(0..=70);
    if rng.gen_bool(0.5) {
        let mut b = BitVec::new();
        for _ in 0..n {
            b.push(rng.gen());
        }
        b
    } else {
        let mut b = BitVec::from_bytes(&rng.gen::<[u8; 9]>());
        b.truncate(n);
        b
    }
}

fn view(rng: &mut impl Rng) -> validator::v2::View {
    validator::v2::View { genesis: rng.gen(), epoch: validator::EpochNumber(edge_u64(rng)), number: validator::ViewNumber(edge_u64(rng)) }
}
fn header(rng: &mut impl Rng) -> validator::v2::BlockHeader {
    validator::v2::BlockHeader { number: validator::BlockNumber(edge_u64(rng)), payload: rng.gen() }
}
fn commit(rng: &mut impl Rng) -> validator::v2::ReplicaCommit {
    validator::v2::ReplicaCommit { view: view(rng), proposal: header(rng) }
}
fn commit_qc(rng: &mut impl Rng) -> validator::v2::CommitQC {
    validator::v2::CommitQC { message: commit(rng), signers: validator::v2::Signers(bitvec(rng)), signature: rng.gen() }
}
fn timeout(rng: &mut impl Rng) -> validator::v2::ReplicaTimeout {
    validator::v2::ReplicaTimeout {
        view: view(rng),
        high_vote: if rng.gen_bool(0.6) { Some(commit(rng)) } else { None },
        high_qc: if rng.gen_bool(0.5) { Some(commit_qc(rng)) } else { None },
    }
}
fn timeout_qc(rng: &mut impl Rng) -> validator::v2::TimeoutQC {
    let n = match rng.gen_range(0..4) { 0 => 0, 1 => 1, _ => rng.gen_range(2..7) };
    // adversarial key order: entries that differ only deep inside
    let base = timeout(rng);
    let map = (0..n)
        .map(|i| {
            let mut m = if rng.gen_bool(0.5) { base.clone() } else { timeout(rng) };
            if i % 2 == 1 {
                m.high_vote = Some(commit(rng));
            }
            (m, validator::v2::Signers(bitvec(rng)))
        })
        .collect();
    validator::v2::TimeoutQC { view: view(rng), map, signature: rng.gen() }
}
fn justification(rng: &mut impl Rng) -> validator::v2::ProposalJustification {
    if rng.gen_bool(0.5) {
        validator::v2::ProposalJustification::Commit(commit_qc(rng))
    } else {
        validator::v2::ProposalJustification::Timeout(timeout_qc(rng))
    }
}
fn proposal(rng: &mut impl Rng) -> validator::v2::LeaderProposal {
    validator::v2::LeaderProposal {
        proposal_payload: match rng.gen_range(0..3) { 0 => None, 1 => Some(validator::Payload(vec![])), _ => Some(validator::Payload(bytes(rng))) },
        justification: justification(rng),
    }
}
fn chonky(rng: &mut impl Rng) -> validator::v2::ChonkyMsg {
    use validator::v2::ChonkyMsg as M;
    match rng.gen_range(0..4) {
        0 => M::LeaderProposal(proposal(rng)),
        1 => M::ReplicaCommit(commit(rng)),
        2 => M::ReplicaNewView(validator::v2::ReplicaNewView { justification: justification(rng) }),
        _ => M::ReplicaTimeout(timeout(rng)),
    }
}
fn duration(rng: &mut impl Rng) -> time::Duration {
    let secs: i64 = match rng.gen_range(0..8) {
        0 => 0,
        1 => -1,
        2 => i64::MAX,
        3 => i64::MIN + 1, // the property excludes second counts of i64::MIN
        4 => rng.gen_range(-10..10),
        _ => rng.gen_range(i64::MIN + 1..=i64::MAX),
    };
    let nanos: i32 = match rng.gen_range(0..5) {
        0 => 0,
        1 => 999_999_999,
        2 => 1,
        _ => rng.gen_range(0..1_000_000_000),
    };
    // same-sign normalised construction without overflow
    if secs >= 0 {
        time::Duration::new(secs.min(i64::MAX - 1), nanos)
    } else {
        time::Duration::new(secs, -nanos)
    }
}
fn utc(rng: &mut impl Rng) -> time::Utc {
    time::UNIX_EPOCH + duration(rng)
}
fn socket_addr(rng: &mut impl Rng) -> std::net::SocketAddr {
    let port = match rng.gen_range(0..4) { 0 => 0, 1 => 65535, _ => rng.gen() };
    use std::net::{IpAddr, Ipv4Addr, Ipv6Addr};
    let ip: IpAddr = match rng.gen_range(0..12) {
        0 => IpAddr::V4(Ipv4Addr::UNSPECIFIED),
        1 => IpAddr::V4(Ipv4Addr::LOCALHOST),
        2 => IpAddr::V4(Ipv4Addr::BROADCAST),
        3 => IpAddr::V6(Ipv6Addr::UNSPECIFIED),
        4 => IpAddr::V6(Ipv6Addr::LOCALHOST),
        // IPv4-mapped and IPv4-compatible IPv6 addresses: distinct values from their IPv4 counterparts
        5 => IpAddr::V6(Ipv4Addr::from(rng.gen::<[u8; 4]>()).to_ipv6_mapped()),
        6 => { let v4 = rng.gen::<[u8; 4]>(); let mut b = [0u8; 16]; b[12..].copy_from_slice(&v4); IpAddr::V6(Ipv6Addr::from(b)) }
        7 => IpAddr::V6(Ipv6Addr::from([0xfe80, 0, 0, 0, rng.gen(), rng.gen(), rng.gen(), rng.gen()])),
        8 | 9 => IpAddr::from(rng.gen::<[u8; 4]>()),
        _ => IpAddr::from(rng.gen::<[u8; 16]>()),
    };
    std::net::SocketAddr::new(ip, port)
}
fn net_address(rng: &mut impl Rng) -> validator::NetAddress {
    validator::NetAddress { addr: socket_addr(rng), version: edge_u64(rng), timestamp: utc(rng) }
}
fn schedule(rng: &mut impl Rng, keys: &[validator::SecretKey]) -> validator::Schedule {
    let n = rng.gen_range(1..=keys.len().min(6));
    let mut ks = keys.to_vec();
    ks.shuffle(rng);
    let cap = u64::MAX / 8;
    let mut infos: Vec<validator::ValidatorInfo> = ks[..n]
        .iter()
        .map(|k| validator::ValidatorInfo {
            key: k.public(),
            weight: match rng.gen_range(0..4) { 0 => 1, 1 => cap, _ => rng.gen_range(1..1000) },
            leader: rng.gen_bool(0.6),
        })
        .collect();
    if !infos.iter().any(|v| v.leader) {
        infos[0].leader = true;
    }
    validator::Schedule::new(
        infos,
        validator::LeaderSelection {
            frequency: edge_u64(rng),
            mode: if rng.gen_bool(0.5) { validator::LeaderSelectionMode::RoundRobin } else { validator::LeaderSelectionMode::Weighted },
        },
    )
    .unwrap()
}
fn genesis_raw(rng: &mut impl Rng, keys: &[validator::SecretKey]) -> validator::GenesisRaw {
    validator::GenesisRaw {
        chain_id: validator::ChainId(edge_u64(rng)),
        fork_number: validator::ForkNumber(edge_u64(rng)),
        protocol_version: validator::ProtocolVersion(2),
        first_block: validator::BlockNumber(edge_u64(rng)),
        validators_schedule: if rng.gen_bool(0.7) { Some(schedule(rng, keys)) } else { None },
    }
}
fn state(rng: &mut impl Rng) -> validator::v2::ChonkyV2State {
    validator::v2::ChonkyV2State {
        epoch: validator::EpochNumber(edge_u64(rng)),
        view_number: validator::ViewNumber(edge_u64(rng)),
        phase: *[validator::v2::Phase::Prepare, validator::v2::Phase::Commit, validator::v2::Phase::Timeout].choose(rng).unwrap(),
        high_vote: if rng.gen_bool(0.5) { Some(commit(rng)) } else { None },
        high_commit_qc: if rng.gen_bool(0.5) { Some(commit_qc(rng)) } else { None },
        high_timeout_qc: if rng.gen_bool(0.5) { Some(timeout_qc(rng)) } else { None },
        proposals: (0..rng.gen_range(0..4)).map(|_| validator::Proposal { number: validator::BlockNumber(edge_u64(rng)), payload: validator::Payload(bytes(rng)) }).collect(),
    }
}

// ------------------------------------------------------------------------------------------------
// synthetic message with repeated scalars of every wire type (no production message has them, the
// canonical form of packed/unpacked fields is therefore exercised on a descriptor built here)

fn synthetic_pool() -> MessageDescriptor {
    use prost_types::{field_descriptor_proto::{Label, Type}, DescriptorProto, FieldDescriptorProto, FileDescriptorProto, FileDescriptorSet, OneofDescriptorProto};
    let mut fields = vec![];
    let mut oneofs = vec![];
    let mut add = |name: &str, num: i32, ty: Type, repeated: bool, tyname: Option<&str>| {
        let mut f = FieldDescriptorProto {
            name: Some(name.into()),
            number: Some(num),
            r#type: Some(ty as i32),
            label: Some(if repeated { Label::Repeated } else { Label::Optional } as i32),
            type_name: tyname.map(|s| s.to_string()),
            json_name: Some(name.into()),
            ..Default::default()
        };
        if !repeated && ty != Type::Message {
            f.proto3_optional = Some(true);
            f.oneof_index = Some(oneofs.len() as i32);
            oneofs.push(OneofDescriptorProto { name: Some(format!("_{name}")), ..Default::default() });
        }
        fields.push(f);
    };
    add("a", 1, Type::Uint64, false, None);
    add("ru", 2, Type::Uint64, true, None);
    add("rs", 3, Type::Sint32, true, None);
    add("rf32", 4, Type::Fixed32, true, None);
    add("rf64", 5, Type::Fixed64, true, None);
    add("rb", 6, Type::Bool, true, None);
    add("by", 7, Type::Bytes, false, None);
    add("rby", 8, Type::Bytes, true, None);
    add("child", 9, Type::Message, false, Some(".vsyn.S"));
    add("kids", 10, Type::Message, true, Some(".vsyn.S"));
    add("sf", 11, Type::Sfixed32, false, None);
    add("i", 200, Type::Int64, false, None); // two-byte tag
    let msg = DescriptorProto { name: Some("S".into()), field: fields, oneof_decl: oneofs, ..Default::default() };
    let file = FileDescriptorProto { name: Some("vsyn.proto".into()), package: Some("vsyn".into()), syntax: Some("proto3".into()), message_type: vec![msg], ..Default::default() };
    let pool = DescriptorPool::from_file_descriptor_set(FileDescriptorSet { file: vec![file] }).expect("synthetic descriptor");
    pool.get_message_by_name("vsyn.S").unwrap()
}

fn synthetic_tree(rng: &mut impl Rng, depth: usize) -> Vec<(u32, Node)> {
    let mut f = vec![];
    let count = |rng: &mut dyn rand::RngCore| match rng.gen_range(0..5) { 0 => 0usize, 1 => 1, 2 => 2, _ => rng.gen_range(0..6) };
    if rng.gen_bool(0.6) { f.push((1, Node::Varint(edge_u64(rng)))); }
    for _ in 0..count(rng) { f.push((2, Node::Varint(edge_u64(rng)))); }
    for _ in 0..count(rng) { f.push((3, Node::Varint(rng.gen::<u32>() as u64))); }
    for _ in 0..count(rng) { f.push((4, Node::I32(rng.gen()))); }
    for _ in 0..count(rng) { f.push((5, Node::I64(rng.gen()))); }
    for _ in 0..count(rng) { f.push((6, Node::Varint(rng.gen_range(0..2)))); }
    if rng.gen_bool(0.5) { f.push((7, Node::Bytes(bytes(rng)))); }
    for _ in 0..count(rng) { f.push((8, Node::Bytes(bytes(rng)))); }
    if depth > 0 && rng.gen_bool(0.5) { f.push((9, Node::Msg(synthetic_tree(rng, depth - 1)))); }
    if depth > 0 { for _ in 0..count(rng).min(3) { f.push((10, Node::Msg(synthetic_tree(rng, depth - 1)))); } }
    if rng.gen_bool(0.4) { f.push((11, Node::I32(rng.gen()))); }
    if rng.gen_bool(0.4) { f.push((200, Node::Varint(edge_u64(rng)))); }
    f
}

fn synthetic_case(rep: &mut Report, desc: &MessageDescriptor, rng: &mut impl Rng) {
    rep.evaluations += 1;
    rep.count("values_synthetic-repeated-scalars");
    let tree = synthetic_tree(rng, 2);
    let want = wire::canonical(&tree);
    let mut h = Fnv::default();
    wire::shape(&tree, &mut h);
    rep.distinct(h.finish() ^ 0x5157);
    for st in STYLES.iter().chain([Style { shuffle: false, packing: 1, overlong_varints: false }].iter()) {
        let a = wire::emit(&tree, desc, *st, rng);
        rep.count("alternative_serialisations");
        if a != want { rep.count("alternative_serialisations_differing_from_canonical"); }
        if st.packing != 0 { rep.count("packed_unpacked_variants"); }
        match catch(|| zp::canonical_raw(&a, desc)) {
            Ok(Ok(n)) => {
                if n != want {
                    fail(rep, "alt-serialisation-normalises-differently", "synthetic-repeated-scalars", format!("style {st:?}: got {} want {}", hex(&n[..n.len().min(160)]), hex(&want[..want.len().min(160)])), &a);
                }
            }
            Ok(Err(err)) => fail(rep, "alt-serialisation-not-normalisable", "synthetic-repeated-scalars", format!("style {st:?}: {err:#}"), &a),
            Err(p) => rep.violation(format!("panic|{}|canonical_raw:synthetic", p.loc()), p.message, json!({"bytes": hex(&a)})),
        }
    }
}

// ------------------------------------------------------------------------------------------------
// equal values constructed differently

fn construction_cases(rep: &mut Report, rng: &mut impl Rng, keys: &[validator::SecretKey]) {
    // (1) schedule listed in different orders
    let s1 = schedule(rng, keys);
    let mut infos: Vec<_> = s1.iter().cloned().collect();
    infos.shuffle(rng);
    let s2 = validator::Schedule::new(infos, s1.leader_selection().clone()).unwrap();
    rep.evaluations += 1;
    rep.count("construction_order_cases");
    if s1 != s2 || zp::encode(&s1) != zp::encode(&s2) {
        fail(rep, "construction-order-dependent", "Schedule", "same validators listed in another order encode differently".into(), &zp::encode(&s1));
    }
    let g1 = validator::GenesisRaw { chain_id: validator::ChainId(1), fork_number: validator::ForkNumber(2), protocol_version: validator::ProtocolVersion(2), first_block: validator::BlockNumber(3), validators_schedule: Some(s1) }.with_hash();
    let g2 = validator::GenesisRaw { chain_id: validator::ChainId(1), fork_number: validator::ForkNumber(2), protocol_version: validator::ProtocolVersion(2), first_block: validator::BlockNumber(3), validators_schedule: Some(s2) }.with_hash();
    if g1.hash() != g2.hash() {
        fail(rep, "construction-order-dependent", "Genesis", "genesis hash depends on the listing order of validators".into(), &[]);
    }
    // (2) timeout certificate assembled from the same votes in different orders
    let n = keys.len().min(5);
    let sched = validator::Schedule::new(keys[..n].iter().map(|k| validator::ValidatorInfo { key: k.public(), weight: 1, leader: true }), validator::LeaderSelection::default()).unwrap();
    let genesis: validator::GenesisHash = rng.gen();
    let v = validator::v2::View { genesis, epoch: validator::EpochNumber(0), number: validator::ViewNumber(rng.gen_range(1..100)) };
    let votes: Vec<validator::Signed<validator::v2::ReplicaTimeout>> = keys[..n]
        .iter()
        .map(|k| {
            let hv = if rng.gen_bool(0.7) { Some(validator::v2::ReplicaCommit { view: validator::v2::View { genesis, epoch: validator::EpochNumber(0), number: validator::ViewNumber(rng.gen_range(0..3)) }, proposal: validator::v2::BlockHeader { number: validator::BlockNumber(rng.gen_range(0..2)), payload: validator::Payload(vec![rng.gen_range(0..2)]).hash() } }) } else { None };
            k.sign_msg(validator::v2::ReplicaTimeout { view: v, high_vote: hv, high_qc: None })
        })
        .collect();
    let build = |order: &[usize]| {
        let mut qc = validator::v2::TimeoutQC::new(v);
        for i in order {
            qc.add(&votes[*i], genesis, validator::EpochNumber(0), &sched).unwrap();
        }
        qc
    };
    let mut o1: Vec<usize> = (0..n).collect();
    let q1 = build(&o1);
    o1.shuffle(rng);
    let q2 = build(&o1);
    rep.evaluations += 1;
    rep.count("construction_order_cases");
    if q1 != q2 || zp::encode(&q1) != zp::encode(&q2) {
        fail(rep, "construction-order-dependent", "TimeoutQC", format!("votes added in order {o1:?} give different bytes"), &zp::encode(&q1));
    }
    let m1 = validator::Msg::Consensus(validator::ConsensusMsg::V2(validator::v2::ChonkyMsg::ReplicaNewView(validator::v2::ReplicaNewView { justification: validator::v2::ProposalJustification::Timeout(q1) })));
    let m2 = validator::Msg::Consensus(validator::ConsensusMsg::V2(validator::v2::ChonkyMsg::ReplicaNewView(validator::v2::ReplicaNewView { justification: validator::v2::ProposalJustification::Timeout(q2) })));
    if m1.hash() != m2.hash() {
        fail(rep, "construction-order-dependent", "Msg::hash", "message hash depends on vote insertion order".into(), &[]);
    }
    // a signature made over one construction verifies over the other
    let signed = keys[0].sign_msg(match m1 { validator::Msg::Consensus(c) => c, _ => unreachable!() });
    let mut other = signed.clone();
    other.msg = match m2 { validator::Msg::Consensus(c) => c, _ => unreachable!() };
    if other.verify().is_err() {
        fail(rep, "construction-order-dependent", "Signed", "signature does not verify over an equal value built in another order".into(), &[]);
    }
    // (3) bit vectors built by push vs from bytes
    let bits: Vec<bool> = (0..rng.gen_range(0..70)).map(|_| rng.gen()).collect();
    let mut b1 = BitVec::new();
    for b in &bits { b1.push(*b); }
    let mut by = vec![0u8; (bits.len() + 7) / 8 + 1];
    for (i, b) in bits.iter().enumerate() { if *b { by[i / 8] |= 0x80 >> (i % 8); } }
    // garbage after the logical end must not leak into the encoding
    let tail = bits.len();
    for i in tail..by.len() * 8 { if rng.gen_bool(0.5) { by[i / 8] |= 0x80 >> (i % 8); } }
    let mut b2 = BitVec::from_bytes(&by);
    b2.truncate(bits.len());
    rep.evaluations += 1;
    rep.count("construction_order_cases");
    if b1 != b2 || zp::encode(&b1) != zp::encode(&b2) {
        fail(rep, "construction-order-dependent", "BitVec", format!("{} bits: push-built and bytes-built vectors encode differently", bits.len()), &zp::encode(&b1));
    }
}

pub fn run(args: &Args, rep: &mut Report) {
    rep.rule = "one evaluation = one generated value of one wire/storage type put through: encode==canonical, decode(encode(x))==x, \
                encode(x)==independent canonical encoder, and 5 alternative serialisations (fields shuffled at every level, packing variants, \
                over-long varint values) each decoding to x and normalising to encode(x); plus the synthetic repeated-scalar message and \
                construction-order cases; distinct = distinct (type, field-presence/length-class shape)"
        .into();
    let mut krng = rng_for(args.seed, args.shard, 90, 0);
    let keys = crate::gen::keys(&mut krng, 6);
    let nkeys: Vec<node::SecretKey> = (0..3).map(|_| krng.gen()).collect();
    let desc = synthetic_pool();
    let rounds: u64 = args.pick(250, 8000);
    let only: Option<u64> = args.replay.as_ref().map(|p| {
        let v: vcommon::Value = vcommon::serde_json::from_slice(&std::fs::read(p).unwrap()).unwrap();
        v["replay"]["round"].as_u64().unwrap_or(0)
    });
    for round in 0..rounds {
        if let Some(o) = only { if o != round { continue; } } else if !rep.within_budget() { rep.count("stopped_by_budget"); break; }
        let rng = &mut rng_for(args.seed, args.shard, 9, round);
        macro_rules! chk { ($name:expr, $v:expr) => {{ let v = $v; check_value(rep, $name, &v, rng); }}; }
        // std conversions
        chk!("Duration", duration(rng));
        chk!("Utc", utc(rng));
        chk!("SocketAddr", socket_addr(rng));
        chk!("BitVec", bitvec(rng));
        chk!("Rate", limiter::Rate { burst: edge_u64(rng) as usize, refresh: duration(rng) });
        // validator messages: edge-biased generators
        chk!("View", view(rng));
        chk!("BlockHeader", header(rng));
        chk!("ReplicaCommit", commit(rng));
        chk!("CommitQC", commit_qc(rng));
        chk!("ReplicaTimeout", timeout(rng));
        chk!("TimeoutQC", timeout_qc(rng));
        chk!("LeaderProposal", proposal(rng));
        chk!("ReplicaNewView", validator::v2::ReplicaNewView { justification: justification(rng) });
        chk!("ChonkyMsg", chonky(rng));
        chk!("ConsensusMsg", validator::ConsensusMsg::V2(chonky(rng)));
        chk!("Msg", match rng.gen_range(0..3) {
            0 => validator::Msg::Consensus(validator::ConsensusMsg::V2(chonky(rng))),
            1 => validator::Msg::SessionId(node::SessionId(bytes(rng))),
            _ => validator::Msg::NetAddress(net_address(rng)),
        });
        chk!("Signed<ConsensusMsg>", keys[0].sign_msg(validator::ConsensusMsg::V2(chonky(rng))));
        chk!("Signed<NetAddress>", keys[1].sign_msg(net_address(rng)));
        chk!("NetAddress", net_address(rng));
        chk!("FinalBlock", validator::v2::FinalBlock { payload: validator::Payload(bytes(rng)), justification: commit_qc(rng) });
        chk!("PreGenesisBlock", validator::PreGenesisBlock { number: validator::BlockNumber(edge_u64(rng)), payload: validator::Payload(bytes(rng)), justification: validator::Justification(bytes(rng)) });
        chk!("Block", if rng.gen_bool(0.5) { validator::Block::FinalV2(validator::v2::FinalBlock { payload: validator::Payload(bytes(rng)), justification: commit_qc(rng) }) } else { validator::Block::PreGenesis(validator::PreGenesisBlock { number: validator::BlockNumber(edge_u64(rng)), payload: validator::Payload(bytes(rng)), justification: validator::Justification(bytes(rng)) }) });
        chk!("Proposal", validator::Proposal { number: validator::BlockNumber(edge_u64(rng)), payload: validator::Payload(bytes(rng)) });
        chk!("Schedule", schedule(rng, &keys));
        chk!("GenesisRaw", genesis_raw(rng, &keys));
        chk!("ChonkyV2State", state(rng));
        chk!("ReplicaState", validator::ReplicaState::V2(state(rng)));
        chk!("Signers", validator::v2::Signers(bitvec(rng)));
        chk!("Phase", *[validator::v2::Phase::Prepare, validator::v2::Phase::Commit, validator::v2::Phase::Timeout].choose(rng).unwrap());
        chk!("PayloadHash", rng.gen::<validator::PayloadHash>());
        chk!("MsgHash", rng.gen::<validator::MsgHash>());
        chk!("GenesisHash", rng.gen::<validator::GenesisHash>());
        chk!("validator::PublicKey", keys[rng.gen_range(0..keys.len())].public());
        chk!("validator::Signature", keys[0].sign_msg(commit(rng)).sig);
        chk!("AggregateSignature", rng.gen::<validator::AggregateSignature>());
        chk!("node::PublicKey", nkeys[rng.gen_range(0..nkeys.len())].public());
        chk!("node::Signed<SessionId>", nkeys[0].sign_msg(node::SessionId(bytes(rng))));
        // the repository's own Standard distributions as a second source of values
        chk!("Msg(std-dist)", rng.gen::<validator::Msg>());
        chk!("ReplicaState(std-dist)", rng.gen::<validator::ReplicaState>());
        chk!("FinalBlock(std-dist)", rng.gen::<validator::v2::FinalBlock>());
        for _ in 0..4 {
            synthetic_case(rep, &desc, rng);
        }
        construction_cases(rep, rng, &keys);
    }
}
