//! C02(a) - the re-proposal decision function under generated timeout certificates.
//!
//! Oracle 1 (reference): an independent implementation of `get_implied_block` written from
//! spec/informal-spec/types.rs, compared on scenario-consistent AND on arbitrary vote assignments.
//! Oracle 2 (safety content, needs no reference): for vote assignments that a real history can
//! produce when block (k,h) gathered a commit quorum in view v and at most f weight is faulty, the
//! implied block must be (k, Some(h)) unless the certificate for k itself is reported, in which
//! case it must be a block with number k+1; never another payload for k, never a number below k.
use std::collections::BTreeMap;

use bit_vec::BitVec;
use rand::{seq::SliceRandom, Rng};
use vcommon::{catch, hash_of, json, rng_for, Args, Report};
use zksync_consensus_roles::validator::{
    self,
    v2::{BlockHeader, CommitQC, ProposalJustification, ReplicaCommit, ReplicaTimeout, Signers, TimeoutQC},
    AggregateSignature, BlockNumber, PayloadHash, Schedule,
};

use crate::gen::Committee;

/// What one signer reports in its timeout vote (ground truth level).
#[derive(Clone, Debug, PartialEq, Eq, Hash)]
struct Claim {
    /// high vote: (view, number, hash index)
    vote: Option<(u64, u64, usize)>,
    /// high commit certificate: (view, number, hash index)
    qc: Option<(u64, u64, usize)>,
}

struct Scenario {
    first_block: u64,
    w: u64,
    /// (signer index, claim)
    claims: Vec<(usize, Claim)>,
}

fn build_qc(c: &Committee, sc: &Scenario, hashes: &[PayloadHash]) -> TimeoutQC {
    let n = c.n();
    let mut map: BTreeMap<ReplicaTimeout, Signers> = BTreeMap::new();
    for (i, cl) in &sc.claims {
        let m = ReplicaTimeout {
            view: c.view(sc.w),
            high_vote: cl.vote.map(|(v, num, h)| ReplicaCommit {
                view: c.view(v),
                proposal: BlockHeader { number: BlockNumber(num), payload: hashes[h] },
            }),
            high_qc: cl.qc.map(|(v, num, h)| CommitQC {
                message: ReplicaCommit { view: c.view(v), proposal: BlockHeader { number: BlockNumber(num), payload: hashes[h] } },
                signers: Signers(BitVec::from_elem(n, true)),
                signature: AggregateSignature::default(),
            }),
        };
        map.entry(m).or_insert_with(|| Signers::new(n)).0.set(*i, true);
    }
    TimeoutQC { view: c.view(sc.w), map, signature: AggregateSignature::default() }
}

/// Reference written from spec/informal-spec/types.rs (weights in u128, thresholds from the committee's
/// own u128 formulas, votes tallied per *commit vote* as the spec says... the spec tallies per
/// CommitVote (view, number, hash) while the implementation tallies per block header (number, hash);
/// the documented refinement (leader_proposal.rs: "high vote field for the same block") is the
/// header, which is what we follow here.
fn reference(c: &Committee, sc: &Scenario) -> (u64, Option<usize>) {
    let mut tally: BTreeMap<(u64, usize), u128> = BTreeMap::new();
    for (i, cl) in &sc.claims {
        if let Some((_, num, h)) = cl.vote {
            *tally.entry((num, h)).or_default() += c.w[*i] as u128;
        }
    }
    let sub: Vec<(u64, usize)> = tally.iter().filter(|(_, w)| **w >= c.subquorum()).map(|(k, _)| *k).collect();
    let high_vote = if sub.len() == 1 { Some(sub[0]) } else { None };
    // highest certificate by view
    let mut high_qc: Option<(u64, u64, usize)> = None;
    for (_, cl) in &sc.claims {
        if let Some(q) = cl.qc {
            if high_qc.map_or(true, |b| q.0 > b.0) {
                high_qc = Some(q);
            }
        }
    }
    match (high_vote, high_qc) {
        (Some((num, h)), None) => (num, Some(h)),
        (Some((num, h)), Some((_, qn, _))) if num > qn => (num, Some(h)),
        (_, Some((_, qn, _))) => (qn + 1, None),
        (None, None) => (sc.first_block, None),
    }
}

struct Expect {
    number: u64,
    /// Some(Some(h)) must re-propose h; Some(None) must be a new block; None = either is fine
    payload: Option<Option<usize>>,
}

fn evaluate(rep: &mut Report, c: &Committee, sc: &Scenario, hashes: &[PayloadHash], family: &str, expect: Option<Expect>, replay: vcommon::Value) {
    rep.evaluations += 1;
    rep.count(&format!("family_{family}"));
    let qc = build_qc(c, sc, hashes);
    let just = ProposalJustification::Timeout(qc);
    let got = catch(|| just.get_implied_block(&c.schedule, BlockNumber(sc.first_block)));
    let (num, ph) = match got {
        Err(p) => {
            rep.violation(format!("panic|{}|{family}", p.loc()), format!("get_implied_block panicked: {}", p.message), replay);
            return;
        }
        Ok(x) => x,
    };
    let got_idx = ph.map(|p| hashes.iter().position(|h| *h == p).unwrap_or(usize::MAX));
    let (rnum, rh) = reference(c, sc);
    if (num.0, got_idx) != (rnum, rh) {
        rep.violation(
            format!("reference-mismatch|implied-block|{family}"),
            format!("implementation implies ({}, {:?}), reference ({}, {:?}); weights {:?} subquorum {} claims {:?}", num.0, got_idx, rnum, rh, c.w, c.subquorum(), sc.claims),
            replay.clone(),
        );
    }
    if let Some(e) = expect {
        let ok_num = num.0 == e.number;
        let ok_pay = match e.payload {
            None => true,
            Some(want) => got_idx == want,
        };
        if !ok_num || !ok_pay {
            rep.violation(
                format!("certified-block-displaced|implied-block|{family}"),
                format!("history-consistent certificate implies ({}, {:?}) but safety requires number {} payload {:?}; weights {:?} f={} claims {:?}", num.0, got_idx, e.number, e.payload, c.w, c.f(), sc.claims),
                replay,
            );
        }
    }
    // boundary counters
    let mut tally: BTreeMap<(u64, usize), u128> = BTreeMap::new();
    for (i, cl) in &sc.claims {
        if let Some((_, n2, h)) = cl.vote {
            *tally.entry((n2, h)).or_default() += c.w[*i] as u128;
        }
    }
    let s = c.subquorum();
    let at = tally.values().filter(|w| **w == s).count();
    let below = tally.values().filter(|w| **w + 1 == s).count();
    let subs = tally.values().filter(|w| **w >= s).count();
    if at > 0 { rep.count("boundary_high_vote_weight_exactly_subquorum"); }
    if below > 0 { rep.count("boundary_high_vote_weight_one_below_subquorum"); }
    if subs >= 2 { rep.count("boundary_two_subquorums"); }
    if subs == 0 { rep.count("no_subquorum"); }
    if ph.is_some() { rep.count("result_reproposal"); } else { rep.count("result_new_block"); }
    rep.distinct(hash_of(&(&c.w, &sc.claims, sc.first_block, sc.w)));
}

/// subsets of 0..n (as index vectors) with weight >= min
fn subsets_with_weight(c: &Committee, min: u128, max: u128) -> Vec<Vec<usize>> {
    let n = c.n();
    let mut out = vec![];
    for mask in 0u32..(1 << n) {
        let s: Vec<usize> = (0..n).filter(|i| mask >> i & 1 == 1).collect();
        let w = c.weight_of(&s);
        if w >= min && w <= max {
            out.push(s);
        }
    }
    out
}

/// History-consistent scenario (families A and B of DESIGN.md). Returns scenario + expectation.
#[allow(clippy::too_many_arguments)]
fn scenario(rng: &mut impl Rng, _c: &Committee, q_set: &[usize], b_set: &[usize], s_set: &[usize], fam_b: bool) -> (Scenario, Expect, &'static str) {
    // hashes: 0 = h (locked), 1,2 = alternatives, 3 = hash of block k-1, 4,5 = payloads for k+1
    let first_block = rng.gen_range(0..3u64);
    let k = first_block + rng.gen_range(0..3u64);
    let v = rng.gen_range(2..8u64); // view in which (k,h) gathered the quorum
    let w = v + rng.gen_range(1..5u64); // view of the timeout certificate
    let qc_prev = if k > first_block { Some((v - 1, k - 1, 3usize)) } else { None };
    let qc_k = (v, k, 0usize);
    let mut claims = vec![];
    let mut reported_k = false;
    // in family B a random non-empty subset of correct signers has seen the certificate for k
    let correct: Vec<usize> = s_set.iter().copied().filter(|i| !b_set.contains(i)).collect();
    let mut saw: Vec<usize> = vec![];
    if fam_b {
        for i in &correct {
            if rng.gen_bool(0.5) {
                saw.push(*i);
            }
        }
        if saw.is_empty() {
            saw.push(*correct.choose(rng).unwrap());
        }
    }
    // in family B votes for k+1 happen in views after v; no payload for k+1 may reach a commit quorum
    // in one view - we keep every (view, payload) pair below the quorum by giving each voter its own view
    // or alternating payloads.
    for i in s_set {
        let cl = if b_set.contains(i) {
            // Byzantine: anything that can be validly signed. Certificates it can show are only those that exist.
            let vote = match rng.gen_range(0..7) {
                0 => None,
                1 => Some((rng.gen_range(v..=w), k, 0)),
                2 => Some((rng.gen_range(0..=w), k, rng.gen_range(1..3))),
                3 => Some((rng.gen_range(0..=w), k + 1, rng.gen_range(4..6))),
                4 => Some((rng.gen_range(0..=w), k.saturating_sub(1), 3)),
                5 => Some((rng.gen_range(0..=w), k + 7, 1)),
                _ => Some((0, first_block, 2)),
            };
            let qc = match rng.gen_range(0..4) {
                0 => None,
                1 => qc_prev,
                2 => {
                    // the certificate for k exists (Q voted); a faulty validator may have assembled it
                    reported_k = true;
                    Some(qc_k)
                }
                _ => {
                    // an older certificate (for k-2), if such a block exists
                    if k >= first_block + 2 { Some((v - 2, k - 2, 3)) } else { None }
                }
            };
            Claim { vote, qc }
        } else if saw.contains(i) {
            reported_k = true;
            // saw the certificate for k; may have voted for k+1 afterwards
            let vote = if rng.gen_bool(0.6) {
                Some((rng.gen_range(v + 1..=w), k + 1, rng.gen_range(4..6)))
            } else if q_set.contains(i) {
                Some((v, k, 0))
            } else {
                None
            };
            Claim { vote, qc: Some(qc_k) }
        } else if q_set.contains(i) {
            // voted (k,h) in v, possibly again for its re-proposal later
            Claim { vote: Some((rng.gen_range(v..=w), k, 0)), qc: qc_prev }
        } else {
            // correct, did not vote in v, has not seen the certificate for k
            let vote = match rng.gen_range(0..4) {
                0 => None,
                1 => Some((rng.gen_range(v + 1..=w), k, 0)), // voted a later re-proposal
                2 if k > first_block => Some((v - 1, k - 1, 3)),
                2 => None,
                _ => Some((rng.gen_range(0..v), k, rng.gen_range(1..3))), // a failed earlier view
            };
            // a lagging correct replica may not have seen the certificate for k-1 yet
            let qc = if rng.gen_bool(0.8) { qc_prev } else { None };
            Claim { vote, qc }
        };
        claims.push((*i, cl));
    }
    let expect = if reported_k {
        Expect { number: k + 1, payload: None }
    } else {
        Expect { number: k, payload: Some(Some(0)) }
    };
    let fam = if fam_b { "B-some-saw-certificate" } else if reported_k { "A-faulty-reports-certificate" } else { "A-locked-block" };
    (Scenario { first_block, w, claims }, expect, fam)
}

fn arbitrary(rng: &mut impl Rng, c: &Committee) -> Scenario {
    let first_block = rng.gen_range(0..3u64);
    let w = rng.gen_range(1..10u64);
    let n = c.n();
    let mut claims = vec![];
    for i in 0..n {
        if rng.gen_bool(0.15) {
            continue;
        }
        let vote = if rng.gen_bool(0.8) { Some((rng.gen_range(0..=w), first_block + rng.gen_range(0..3), rng.gen_range(0..3))) } else { None };
        // certificates are a function of their view (two different certificates of one view cannot both exist)
        let qc = if rng.gen_bool(0.6) { let x = rng.gen_range(0..w); Some((x, first_block + x % 3, (x % 3) as usize)) } else { None };
        claims.push((i, Claim { vote, qc }));
    }
    Scenario { first_block, w, claims }
}

pub fn run(args: &Args, rep: &mut Report) {
    rep.rule = "one evaluation = get_implied_block on one generated timeout certificate; families: history-consistent \
                (a block (k,h) gathered a commit quorum Q, faulty set B of weight <= f, signer quorum S; A = no correct signer saw the \
                certificate, B = some did) checked against the safety expectation AND the spec reference, plus arbitrary assignments \
                checked against the reference only; distinct = distinct (weights, claims, first block, view)"
        .into();
    let mut pool_rng = rng_for(args.seed, 0, 20, 0);
    let pool = crate::gen::keys(&mut pool_rng, 13);
    let hashes: Vec<PayloadHash> = (0..6).map(|_| pool_rng.gen()).collect();
    let only: Option<u64> = args.replay.as_ref().map(|p| {
        let v: vcommon::Value = vcommon::serde_json::from_slice(&std::fs::read(p).unwrap()).unwrap();
        v["replay"]["case"].as_u64().unwrap()
    });
    let ncases: u64 = args.pick(60, 1500);
    let per_case: u64 = args.pick(350, 3000);
    for case in 0..ncases {
        if let Some(o) = only {
            if o != case { continue; }
        } else if !rep.within_budget() {
            rep.count("stopped_by_budget");
            break;
        }
        let mut rng = rng_for(args.seed, args.shard, 2, case);
        // committees: sizes where f >= 1 matter most (n >= 6 with unit weights); weighted families make f >= 1 for fewer validators
        let n = match case % 6 { 0 => 6, 1 => 7, 2 => 11, 3 => rng.gen_range(1..=5), 4 => rng.gen_range(6..=12), _ => rng.gen_range(3..=9) };
        let family = match case % 4 { 0 => 0, 1 => 3, 2 => 1, _ => 2 };
        let c = Committee::new(&mut rng, &pool, n, family);
        rep.count("committees");
        if c.f() >= 1 { rep.count("committees_with_f>=1"); }
        let quorums = if n <= 12 { subsets_with_weight(&c, c.quorum(), u128::MAX) } else { vec![] };
        let faulty = subsets_with_weight(&c, 0, c.f());
        // exhaustive part (only for the 6-validator unit-weight committee, on shard 0, first case): all (Q, B, S)
        let exhaustive = n == 6 && family == 0 && case == 0 && args.shard < 2;
        if exhaustive {
            for q_set in &quorums {
                for b_set in &faulty {
                    for s_set in &quorums {
                        for rep_i in 0..8 {
                            let (sc, e, fam) = scenario(&mut rng, &c, q_set, b_set, s_set, rep_i % 2 == 1);
                            evaluate(rep, &c, &sc, &hashes, fam, Some(e), json!({"case": case}));
                        }
                    }
                }
            }
            rep.count("exhaustive_QBS_enumerations");
        }
        for i in 0..per_case {
            let q_set = quorums.choose(&mut rng).unwrap().clone();
            let b_set = faulty.choose(&mut rng).unwrap().clone();
            let s_set = quorums.choose(&mut rng).unwrap().clone();
            let (sc, e, fam) = scenario(&mut rng, &c, &q_set, &b_set, &s_set, i % 3 == 2);
            evaluate(rep, &c, &sc, &hashes, fam, Some(e), json!({"case": case}));
            let sc = arbitrary(&mut rng, &c);
            evaluate(rep, &c, &sc, &hashes, "arbitrary", None, json!({"case": case}));
        }
        if rep.samples.len() < rep.max_samples {
            let q_set = quorums.choose(&mut rng).unwrap().clone();
            let (sc, e, fam) = scenario(&mut rng, &c, &q_set, &faulty[faulty.len() - 1], &quorums[0], false);
            rep.sample(json!({"weights": c.w, "f": c.f().to_string(), "subquorum": c.subquorum().to_string(), "family": fam,
                "claims(signer,{vote:(view,number,hash#),qc:(view,number,hash#)})": format!("{:?}", sc.claims),
                "expected_number": e.number, "expected_payload": format!("{:?}", e.payload)}));
        }
    }
    // Commit justification: always the next block, new payload
    let mut rng = rng_for(args.seed, args.shard, 21, 0);
    let c = Committee::new(&mut rng, &pool, 4, 0);
    for _ in 0..200 {
        let num = rng.gen_range(0..1000u64);
        let qc = CommitQC {
            message: ReplicaCommit { view: c.view(rng.gen_range(0..100)), proposal: BlockHeader { number: BlockNumber(num), payload: rng.gen() } },
            signers: Signers(BitVec::from_elem(4, true)),
            signature: AggregateSignature::default(),
        };
        rep.evaluations += 1;
        let r = catch(|| ProposalJustification::Commit(qc.clone()).get_implied_block(&c.schedule, BlockNumber(0)));
        match r {
            Ok((n2, None)) if n2.0 == num + 1 => rep.count("commit_justification_ok"),
            other => rep.violation("commit-justification|implied-block|".to_string(), format!("commit justification for block {num} implies {other:?}"), json!({})),
        }
    }
    let _ = (validator::ViewNumber(0), Schedule::len);
}
