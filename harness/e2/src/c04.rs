//! C04 - certificates are accepted exactly when genuinely backed by a quorum.
//! The generator owns the ground truth (who signed what with which key); expected verdict is computed
//! from it and compared with the verdict of the real verify()/add() functions, both ways.
use std::collections::BTreeMap;

use bit_vec::BitVec;
use rand::{seq::SliceRandom, Rng};
use vcommon::{catch, hash_of, json, rng_for, Args, Report};
use zksync_consensus_roles::validator::{
    self,
    v2::{
        BlockHeader, CommitQC, FinalBlock, LeaderProposal, ProposalJustification, ReplicaCommit,
        ReplicaNewView, ReplicaTimeout, Signers, TimeoutQC,
    },
    AggregateSignature, EpochNumber, GenesisHash, Payload, Schedule, SecretKey,
};

use crate::gen::Committee;

struct Cx<'a> {
    rep: &'a mut Report,
    case: u64,
    /// description of the case (committee etc.) for samples / replays
    desc: String,
}

impl Cx<'_> {
    /// Compares an implementation verdict with the ground truth.
    fn verdict(&mut self, object: &str, variant: &str, got: Result<bool, vcommon::Panicked>, want: bool) {
        self.rep.evaluations += 1;
        self.rep.count(&format!("{}_{}", object, if want { "genuine" } else { "bogus" }));
        self.rep.count(&format!("variant_{object}/{variant}"));
        match got {
            Err(p) => self.rep.violation(
                format!("panic|{}|{object}/{variant}", p.loc()),
                format!("{object} [{variant}] panicked: {} ({})", p.message, self.desc),
                json!({"case": self.case}),
            ),
            Ok(g) if g != want => {
                let kind = if g { "accepted-not-genuine" } else { "rejected-genuine" };
                self.rep.violation(
                    format!("{kind}|{object}|{variant}"),
                    format!("{object} [{variant}]: implementation {} but ground truth says {} ({})",
                        if g { "ACCEPTED" } else { "REJECTED" }, if want { "genuine" } else { "not genuine" }, self.desc),
                    json!({"case": self.case}),
                );
            }
            Ok(_) => {}
        }
        self.rep.distinct(hash_of(&(self.rep.args.shard, self.case, object, variant, self.rep.evaluations)));
    }
}

fn bits(n: usize, set: &[usize]) -> Signers {
    let mut b = BitVec::from_elem(n, false);
    for i in set {
        b.set(*i, true);
    }
    Signers(b)
}

fn agg<'a>(sigs: impl IntoIterator<Item = &'a validator::Signature>) -> AggregateSignature {
    AggregateSignature::aggregate(sigs)
}

fn commit_sig(sk: &SecretKey, m: &ReplicaCommit) -> validator::Signature {
    sk.sign_msg(m.clone()).sig
}

/// Builds a CommitQC signed by exactly `set` over `msg` (direct construction, no `add`).
fn mk_commit_qc(c: &Committee, msg: &ReplicaCommit, set: &[usize]) -> CommitQC {
    let sigs: Vec<_> = set.iter().map(|i| commit_sig(&c.sk[*i], msg)).collect();
    CommitQC {
        message: msg.clone(),
        signers: bits(c.n(), set),
        signature: agg(sigs.iter()),
    }
}

fn vqc(qc: &CommitQC, g: GenesisHash, e: EpochNumber, s: &Schedule) -> Result<bool, vcommon::Panicked> {
    catch(|| qc.verify(g, e, s).is_ok())
}

fn commit_qc_cases(cx: &mut Cx, c: &Committee, rng: &mut impl Rng) -> CommitQC {
    let n = c.n();
    let msg = ReplicaCommit {
        view: c.view(rng.gen_range(0..50)),
        proposal: BlockHeader { number: validator::BlockNumber(rng.gen_range(0..100)), payload: rng.gen() },
    };
    // --- signer subsets around the threshold
    for mode in 0..5 {
        let set = c.subset(rng, mode);
        let qc = mk_commit_qc(c, &msg, &set);
        let want = c.weight_of(&set) >= c.quorum();
        cx.rep.count(match mode { 1 => "boundary_exactly_reaching_quorum", 2 => "boundary_just_below_quorum", _ => "subset_other" });
        cx.verdict("CommitQC", &format!("subset-mode{mode}"), vqc(&qc, c.genesis, c.epoch, &c.schedule), want);
        if mode == 1 && set.len() > 1 {
            // dropping any one member of a minimal quorum must be refused (correct aggregate for the smaller set)
            let drop = *set.choose(rng).unwrap();
            let sub: Vec<usize> = set.iter().copied().filter(|i| *i != drop).collect();
            let qc2 = mk_commit_qc(c, &msg, &sub);
            cx.verdict("CommitQC", "minimal-quorum-minus-one", vqc(&qc2, c.genesis, c.epoch, &c.schedule), false);
        }
    }
    // --- a valid certificate and every single-field corruption of it
    let mode = if rng.gen_bool(0.5) { 1 } else { 3 };
    let set = c.subset(rng, mode);
    let good = mk_commit_qc(c, &msg, &set);
    cx.verdict("CommitQC", "valid", vqc(&good, c.genesis, c.epoch, &c.schedule), true);
    let not_in: Vec<usize> = (0..n).filter(|i| !set.contains(i)).collect();
    if let Some(&i) = not_in.choose(rng) {
        let mut q = good.clone();
        q.signers.0.set(i, true);
        cx.verdict("CommitQC", "bitmap-extra-bit", vqc(&q, c.genesis, c.epoch, &c.schedule), false);
    }
    {
        let i = *set.choose(rng).unwrap();
        let mut q = good.clone();
        q.signers.0.set(i, false);
        cx.verdict("CommitQC", "bitmap-cleared-bit", vqc(&q, c.genesis, c.epoch, &c.schedule), false);
    }
    {
        let mut q = good.clone();
        q.signers.0.push(false);
        cx.verdict("CommitQC", "bitmap-len+1", vqc(&q, c.genesis, c.epoch, &c.schedule), false);
        let mut q = good.clone();
        q.signers.0.push(true);
        cx.verdict("CommitQC", "bitmap-len+1-set", vqc(&q, c.genesis, c.epoch, &c.schedule), false);
        let mut q = good.clone();
        q.signers.0.pop();
        cx.verdict("CommitQC", "bitmap-len-1", vqc(&q, c.genesis, c.epoch, &c.schedule), false);
        let mut q = good.clone();
        q.signers = Signers(BitVec::new());
        cx.verdict("CommitQC", "bitmap-empty", vqc(&q, c.genesis, c.epoch, &c.schedule), false);
    }
    {
        let mut q = good.clone();
        q.message.view.number = validator::ViewNumber(q.message.view.number.0 + 1);
        cx.verdict("CommitQC", "view-number", vqc(&q, c.genesis, c.epoch, &c.schedule), false);
        let mut q = good.clone();
        q.message.view.epoch = q.message.view.epoch.next();
        cx.verdict("CommitQC", "epoch-in-message", vqc(&q, c.genesis, c.epoch, &c.schedule), false);
        cx.verdict("CommitQC", "epoch-in-message+param", vqc(&q, c.genesis, c.epoch.next(), &c.schedule), false);
        cx.verdict("CommitQC", "epoch-param", vqc(&good, c.genesis, c.epoch.next(), &c.schedule), false);
        let other_genesis: GenesisHash = rng.gen();
        let mut q = good.clone();
        q.message.view.genesis = other_genesis;
        cx.verdict("CommitQC", "genesis-in-message", vqc(&q, c.genesis, c.epoch, &c.schedule), false);
        cx.verdict("CommitQC", "genesis-in-message+param", vqc(&q, other_genesis, c.epoch, &c.schedule), false);
        cx.verdict("CommitQC", "genesis-param", vqc(&good, other_genesis, c.epoch, &c.schedule), false);
        let mut q = good.clone();
        q.message.proposal.number = validator::BlockNumber(q.message.proposal.number.0 + 1);
        cx.verdict("CommitQC", "block-number", vqc(&q, c.genesis, c.epoch, &c.schedule), false);
        let mut q = good.clone();
        q.message.proposal.payload = rng.gen();
        cx.verdict("CommitQC", "payload-hash", vqc(&q, c.genesis, c.epoch, &c.schedule), false);
    }
    {
        // signatures
        let mut q = good.clone();
        q.signature = AggregateSignature::default();
        cx.verdict("CommitQC", "sig-infinity", vqc(&q, c.genesis, c.epoch, &c.schedule), false);
        // aggregate of a different signer set (same size if possible)
        let mut other = set.clone();
        if let Some(&i) = not_in.choose(rng) {
            other[0] = i;
            let mut q = good.clone();
            q.signature = mk_commit_qc(c, &msg, &other).signature;
            cx.verdict("CommitQC", "sig-of-other-set", vqc(&q, c.genesis, c.epoch, &c.schedule), false);
        }
        // valid signatures of the same set over a different message
        let mut m2 = msg.clone();
        m2.proposal.payload = rng.gen();
        let mut q = good.clone();
        q.signature = mk_commit_qc(c, &m2, &set).signature;
        cx.verdict("CommitQC", "sig-over-other-vote", vqc(&q, c.genesis, c.epoch, &c.schedule), false);
        // one signature counted twice
        let mut q = good.clone();
        q.signature.add(&commit_sig(&c.sk[set[0]], &msg));
        cx.verdict("CommitQC", "sig-duplicate-added", vqc(&q, c.genesis, c.epoch, &c.schedule), false);
        // an outsider signed instead of a member
        let mut sigs: Vec<_> = set.iter().map(|i| commit_sig(&c.sk[*i], &msg)).collect();
        sigs[0] = commit_sig(&c.outsiders[0], &msg);
        let mut q = good.clone();
        q.signature = agg(sigs.iter());
        cx.verdict("CommitQC", "sig-outsider-instead-of-member", vqc(&q, c.genesis, c.epoch, &c.schedule), false);
    }
    good
}

/// `add`-based incremental assembly with interleaved bad adds.
fn commit_qc_add_cases(cx: &mut Cx, c: &Committee, rng: &mut impl Rng) {
    let msg = ReplicaCommit {
        view: c.view(rng.gen_range(0..50)),
        proposal: BlockHeader { number: validator::BlockNumber(rng.gen_range(0..100)), payload: rng.gen() },
    };
    let mut order: Vec<usize> = (0..c.n()).collect();
    order.shuffle(rng);
    let mut qc = CommitQC::new(msg.clone(), &c.schedule);
    let mut added: Vec<usize> = vec![];
    let mut other_msg = msg.clone();
    other_msg.proposal.payload = rng.gen();
    let mut other_view = msg.clone();
    other_view.view.number = validator::ViewNumber(msg.view.number.0 + 1);
    for i in order {
        // a few bad adds before each good one; every bad add must fail and leave the QC untouched
        let before = qc.clone();
        let bad: Vec<(&str, validator::Signed<ReplicaCommit>)> = vec![
            ("non-member", c.outsiders[0].sign_msg(msg.clone())),
            ("different-vote", c.sk[i].sign_msg(other_msg.clone())),
            ("other-view", c.sk[i].sign_msg(other_view.clone())),
            ("bad-signature", {
                let mut s = c.sk[i].sign_msg(msg.clone());
                s.sig = c.sk[i].sign_msg(other_msg.clone()).sig;
                s
            }),
            ("signature-by-other-key", {
                let mut s = c.sk[i].sign_msg(msg.clone());
                s.sig = c.outsiders[0].sign_msg(msg.clone()).sig;
                s
            }),
        ];
        for (name, s) in bad.iter() {
            if rng.gen_bool(0.5) {
                continue;
            }
            let r = catch(|| {
                let mut q = qc.clone();
                let ok = q.add(s, c.genesis, c.epoch, &c.schedule).is_ok();
                (ok, q)
            });
            match r {
                Ok((ok, q)) => {
                    cx.verdict("CommitQC::add", name, Ok(ok), false);
                    if !ok && q != before {
                        cx.rep.violation(format!("add-mutated-on-error|CommitQC|{name}"), format!("a refused add changed the certificate ({})", cx.desc), json!({"case": cx.case}));
                    }
                }
                Err(p) => cx.verdict("CommitQC::add", name, Err(p), false),
            }
        }
        if let Some(&j) = added.first() {
            let s = c.sk[j].sign_msg(msg.clone());
            let r = catch(|| qc.clone().add(&s, c.genesis, c.epoch, &c.schedule).is_ok());
            cx.verdict("CommitQC::add", "repeated-signer", r, false);
        }
        // wrong genesis / epoch parameters
        {
            let s = c.sk[i].sign_msg(msg.clone());
            let r = catch(|| qc.clone().add(&s, rng.gen(), c.epoch, &c.schedule).is_ok());
            cx.verdict("CommitQC::add", "genesis-param", r, false);
            let r = catch(|| qc.clone().add(&s, c.genesis, c.epoch.next(), &c.schedule).is_ok());
            cx.verdict("CommitQC::add", "epoch-param", r, false);
        }
        // the good add
        let s = c.sk[i].sign_msg(msg.clone());
        let r = catch(|| qc.add(&s, c.genesis, c.epoch, &c.schedule).is_ok());
        cx.verdict("CommitQC::add", "valid-vote", r, true);
        added.push(i);
        // after every good add the partial certificate verifies iff the weight reached the quorum
        let want = c.weight_of(&added) >= c.quorum();
        if want {
            cx.rep.count("incremental_qc_reached_quorum");
        }
        cx.verdict("CommitQC", "incrementally-assembled", vqc(&qc, c.genesis, c.epoch, &c.schedule), want);
        // and equals the directly constructed certificate for the same signer set
        let mut sorted = added.clone();
        sorted.sort();
        if qc != mk_commit_qc(c, &msg, &sorted) {
            cx.rep.violation("add-differs-from-direct|CommitQC|".to_string(), format!("incrementally assembled certificate differs from the direct aggregate ({})", cx.desc), json!({"case": cx.case}));
        }
    }
}

/// A timeout certificate described by ground truth: per signer the message it signed.
struct TSpec {
    view: validator::v2::View,
    /// (signer index, message)
    votes: Vec<(usize, ReplicaTimeout)>,
}

fn mk_timeout_qc(c: &Committee, t: &TSpec) -> TimeoutQC {
    let mut map: BTreeMap<ReplicaTimeout, Signers> = BTreeMap::new();
    let mut sigs = vec![];
    for (i, m) in &t.votes {
        map.entry(m.clone()).or_insert_with(|| Signers::new(c.n())).0.set(*i, true);
        sigs.push(c.sk[*i].sign_msg(m.clone()).sig);
    }
    TimeoutQC { view: t.view, map, signature: agg(sigs.iter()) }
}

fn vtqc(qc: &TimeoutQC, g: GenesisHash, e: EpochNumber, s: &Schedule) -> Result<bool, vcommon::Panicked> {
    catch(|| qc.verify(g, e, s).is_ok())
}

fn timeout_alphabet(c: &Committee, rng: &mut impl Rng, view: u64, good_qc: &CommitQC) -> Vec<ReplicaTimeout> {
    // messages that are individually valid for view `view`
    let hv = |v: u64, rng: &mut dyn rand::RngCore| ReplicaCommit {
        view: c.view(v),
        proposal: BlockHeader { number: validator::BlockNumber(rng.gen_range(0..5)), payload: rng.gen() },
    };
    let mut qc_ok = good_qc.clone();
    // the nested certificate must be valid for this committee: rebuild it to be sure it is for (genesis, epoch)
    qc_ok.message.view = c.view(good_qc.message.view.number.0);
    let set = c.subset(rng, 3);
    let qc_ok = mk_commit_qc(c, &qc_ok.message, &set);
    vec![
        ReplicaTimeout { view: c.view(view), high_vote: None, high_qc: None },
        ReplicaTimeout { view: c.view(view), high_vote: Some(hv(view.saturating_sub(1), rng)), high_qc: None },
        ReplicaTimeout { view: c.view(view), high_vote: Some(hv(view, rng)), high_qc: Some(qc_ok.clone()) },
        ReplicaTimeout { view: c.view(view), high_vote: None, high_qc: Some(qc_ok) },
    ]
}

fn timeout_qc_cases(cx: &mut Cx, c: &Committee, rng: &mut impl Rng, good_commit: &CommitQC) -> TimeoutQC {
    let n = c.n();
    let view = rng.gen_range(1..60u64);
    let alpha = timeout_alphabet(c, rng, view, good_commit);
    let assign = |set: &[usize], rng: &mut dyn rand::RngCore| TSpec {
        view: c.view(view),
        votes: set.iter().map(|i| (*i, alpha[rng.gen_range(0..alpha.len())].clone())).collect(),
    };
    for mode in 0..5 {
        let set = c.subset(rng, mode);
        let t = assign(&set, rng);
        let qc = mk_timeout_qc(c, &t);
        let want = c.weight_of(&set) >= c.quorum();
        cx.rep.count(match mode { 1 => "boundary_exactly_reaching_quorum", 2 => "boundary_just_below_quorum", _ => "subset_other" });
        cx.rep.max("timeout_qc_groups", qc.map.len() as u64);
        cx.verdict("TimeoutQC", &format!("subset-mode{mode}"), vtqc(&qc, c.genesis, c.epoch, &c.schedule), want);
    }
    let mode = if rng.gen_bool(0.5) { 1 } else { 3 };
    let set = c.subset(rng, mode);
    let t = assign(&set, rng);
    let good = mk_timeout_qc(c, &t);
    cx.verdict("TimeoutQC", "valid", vtqc(&good, c.genesis, c.epoch, &c.schedule), true);
    let groups: Vec<ReplicaTimeout> = good.map.keys().cloned().collect();
    let not_in: Vec<usize> = (0..n).filter(|i| !set.contains(i)).collect();
    // overlapping signer sets: a signer of group A also marked in group B
    if groups.len() >= 2 {
        let (a, b) = (&groups[0], &groups[1]);
        let ia = (0..n).find(|i| good.map[a].0[*i]).unwrap();
        let mut q = good.clone();
        q.map.get_mut(b).unwrap().0.set(ia, true);
        cx.verdict("TimeoutQC", "overlapping-groups", vtqc(&q, c.genesis, c.epoch, &c.schedule), false);
        cx.rep.count("overlap_corruptions");
        // the same, but the signer really signed both messages and both signatures are aggregated:
        // every pairing checks out, only the distinctness of the signer sets is violated
        let mut q = good.clone();
        q.map.get_mut(b).unwrap().0.set(ia, true);
        q.signature.add(&c.sk[ia].sign_msg(b.clone()).sig);
        cx.verdict("TimeoutQC", "overlapping-groups-double-signed", vtqc(&q, c.genesis, c.epoch, &c.schedule), false);
        // signer moved between groups (bitmaps stay disjoint, aggregate no longer matches)
        let mut q = good.clone();
        q.map.get_mut(a).unwrap().0.set(ia, false);
        q.map.get_mut(b).unwrap().0.set(ia, true);
        cx.verdict("TimeoutQC", "signer-moved-between-groups", vtqc(&q, c.genesis, c.epoch, &c.schedule), false);
    }
    {
        // extra bit for a non-signer in some group
        if let Some(&i) = not_in.choose(rng) {
            let mut q = good.clone();
            q.map.get_mut(&groups[0]).unwrap().0.set(i, true);
            cx.verdict("TimeoutQC", "bitmap-extra-bit", vtqc(&q, c.genesis, c.epoch, &c.schedule), false);
        }
        // cleared bit
        let g = groups.choose(rng).unwrap();
        let i = (0..n).find(|i| good.map[g].0[*i]).unwrap();
        let mut q = good.clone();
        q.map.get_mut(g).unwrap().0.set(i, false);
        cx.verdict("TimeoutQC", "bitmap-cleared-bit", vtqc(&q, c.genesis, c.epoch, &c.schedule), false);
        // bitmap length
        let mut q = good.clone();
        q.map.get_mut(g).unwrap().0.push(false);
        cx.verdict("TimeoutQC", "bitmap-len+1", vtqc(&q, c.genesis, c.epoch, &c.schedule), false);
        let mut q = good.clone();
        q.map.get_mut(g).unwrap().0.pop();
        cx.verdict("TimeoutQC", "bitmap-len-1", vtqc(&q, c.genesis, c.epoch, &c.schedule), false);
        // empty group: a message nobody signed
        let mut q = good.clone();
        let mut extra = groups[0].clone();
        extra.high_vote = Some(ReplicaCommit { view: c.view(0), proposal: BlockHeader { number: validator::BlockNumber(77), payload: rng.gen() } });
        q.map.insert(extra, Signers::new(n));
        cx.verdict("TimeoutQC", "empty-group", vtqc(&q, c.genesis, c.epoch, &c.schedule), false);
        // all groups replaced by nothing
        let mut q = good.clone();
        q.map.clear();
        cx.verdict("TimeoutQC", "no-groups", vtqc(&q, c.genesis, c.epoch, &c.schedule), false);
    }
    {
        // view fields
        let mut q = good.clone();
        q.view.number = validator::ViewNumber(view + 1);
        cx.verdict("TimeoutQC", "view-number", vtqc(&q, c.genesis, c.epoch, &c.schedule), false);
        let mut q = good.clone();
        q.view.epoch = q.view.epoch.next();
        cx.verdict("TimeoutQC", "epoch-in-cert", vtqc(&q, c.genesis, c.epoch, &c.schedule), false);
        cx.verdict("TimeoutQC", "epoch-in-cert+param", vtqc(&q, c.genesis, c.epoch.next(), &c.schedule), false);
        cx.verdict("TimeoutQC", "epoch-param", vtqc(&good, c.genesis, c.epoch.next(), &c.schedule), false);
        let og: GenesisHash = rng.gen();
        let mut q = good.clone();
        q.view.genesis = og;
        cx.verdict("TimeoutQC", "genesis-in-cert", vtqc(&q, c.genesis, c.epoch, &c.schedule), false);
        cx.verdict("TimeoutQC", "genesis-param", vtqc(&good, og, c.epoch, &c.schedule), false);
    }
    {
        // vote content: genuinely signed messages that are individually invalid
        let i = set[0];
        let mk_with = |m: ReplicaTimeout| {
            let mut t2 = TSpec { view: t.view, votes: t.votes.clone() };
            t2.votes.retain(|(j, _)| *j != i);
            t2.votes.push((i, m));
            mk_timeout_qc(c, &t2)
        };
        // message for another view (signed as such)
        let m = ReplicaTimeout { view: c.view(view + 1), high_vote: None, high_qc: None };
        cx.verdict("TimeoutQC", "member-vote-for-other-view", vtqc(&mk_with(m), c.genesis, c.epoch, &c.schedule), false);
        // high vote of another chain
        let mut hv = ReplicaCommit { view: c.view(view), proposal: BlockHeader { number: validator::BlockNumber(1), payload: rng.gen() } };
        hv.view.genesis = rng.gen();
        let m = ReplicaTimeout { view: c.view(view), high_vote: Some(hv), high_qc: None };
        cx.verdict("TimeoutQC", "member-high-vote-other-genesis", vtqc(&mk_with(m), c.genesis, c.epoch, &c.schedule), false);
        // nested certificate below quorum (correctly signed by too few)
        let small = c.subset(rng, 2);
        let nested_msg = ReplicaCommit { view: c.view(view.saturating_sub(1)), proposal: BlockHeader { number: validator::BlockNumber(3), payload: rng.gen() } };
        let nested = mk_commit_qc(c, &nested_msg, &small);
        let m = ReplicaTimeout { view: c.view(view), high_vote: None, high_qc: Some(nested) };
        cx.verdict("TimeoutQC", "nested-qc-below-quorum", vtqc(&mk_with(m), c.genesis, c.epoch, &c.schedule), false);
        // nested certificate with a wrong aggregate
        let all = c.subset(rng, 3);
        let mut nested = mk_commit_qc(c, &nested_msg, &all);
        nested.signature = AggregateSignature::default();
        let m = ReplicaTimeout { view: c.view(view), high_vote: None, high_qc: Some(nested) };
        cx.verdict("TimeoutQC", "nested-qc-bad-signature", vtqc(&mk_with(m), c.genesis, c.epoch, &c.schedule), false);
        // forged twin: one signer carries a genuine certificate for vote X, another signer (really) signs a
        // message carrying a *different*, bogus certificate for the same vote X (too few signers / garbage
        // aggregate). Both orders inside the certificate's message map are generated.
        if set.len() >= 2 {
            let genuine = mk_commit_qc(c, &nested_msg, &all);
            let forgeries: Vec<(&str, CommitQC)> = vec![
                ("subquorum-bitmap", mk_commit_qc(c, &nested_msg, &small)),
                ("garbage-aggregate", { let mut q = genuine.clone(); q.signature = AggregateSignature::default(); q }),
                ("aggregate-over-other-vote", { let mut m2 = nested_msg.clone(); m2.proposal.payload = rng.gen(); let mut q = genuine.clone(); q.signature = mk_commit_qc(c, &m2, &all).signature; q }),
                ("single-signer", mk_commit_qc(c, &nested_msg, &[all[0]])),
            ];
            let (ia, ib) = (set[0], set[1]);
            for (fname, forged) in forgeries {
                if forged == genuine || forged.verify(c.genesis, c.epoch, &c.schedule).is_ok() {
                    continue; // e.g. a one-validator committee: the "forgery" is genuine
                }
                let ma = ReplicaTimeout { view: c.view(view), high_vote: None, high_qc: Some(genuine.clone()) };
                let mb = ReplicaTimeout { view: c.view(view), high_vote: None, high_qc: Some(forged) };
                let mut t2 = TSpec { view: t.view, votes: t.votes.clone() };
                t2.votes.retain(|(j, _)| *j != ia && *j != ib);
                t2.votes.push((ia, ma.clone()));
                t2.votes.push((ib, mb.clone()));
                let q = mk_timeout_qc(c, &t2);
                cx.rep.count(if ma < mb { "nested_forgery_after_genuine_in_map_order" } else { "nested_forgery_before_genuine_in_map_order" });
                cx.verdict("TimeoutQC", &format!("nested-qc-forged-twin/{fname}"), vtqc(&q, c.genesis, c.epoch, &c.schedule), false);
                // and through the wrappers that embed it
                let nv = ReplicaNewView { justification: ProposalJustification::Timeout(q.clone()) };
                cx.verdict("ReplicaNewView", &format!("nested-qc-forged-twin/{fname}"), catch(|| nv.verify(c.genesis, c.epoch, &c.schedule).is_ok()), false);
            }
        }
        // nested certificate swapped after signing (aggregate no longer covers the message)
        let mut q = good.clone();
        let g0 = groups[0].clone();
        let signers = q.map.remove(&g0).unwrap();
        let mut swapped = g0.clone();
        let mut other_nested_msg = nested_msg.clone();
        other_nested_msg.proposal.payload = rng.gen();
        swapped.high_qc = Some(mk_commit_qc(c, &other_nested_msg, &all));
        if !q.map.contains_key(&swapped) {
            q.map.insert(swapped, signers);
            cx.verdict("TimeoutQC", "nested-qc-swapped-after-signing", vtqc(&q, c.genesis, c.epoch, &c.schedule), false);
        }
        // high vote altered after signing
        let mut q = good.clone();
        let signers = q.map.remove(&g0).unwrap();
        let mut altered = g0.clone();
        altered.high_vote = Some(ReplicaCommit { view: c.view(view), proposal: BlockHeader { number: validator::BlockNumber(9), payload: rng.gen() } });
        if !q.map.contains_key(&altered) {
            q.map.insert(altered, signers);
            cx.verdict("TimeoutQC", "high-vote-altered-after-signing", vtqc(&q, c.genesis, c.epoch, &c.schedule), false);
        }
    }
    {
        // signatures
        let mut q = good.clone();
        q.signature = AggregateSignature::default();
        cx.verdict("TimeoutQC", "sig-infinity", vtqc(&q, c.genesis, c.epoch, &c.schedule), false);
        let mut q = good.clone();
        q.signature.add(&c.sk[t.votes[0].0].sign_msg(t.votes[0].1.clone()).sig);
        cx.verdict("TimeoutQC", "sig-duplicate-added", vtqc(&q, c.genesis, c.epoch, &c.schedule), false);
        // same signers, but one of them signed a different message than the group claims
        if alpha.len() > 1 {
            let (i, m) = &t.votes[0];
            let other = alpha.iter().find(|a| *a != m).unwrap();
            let mut sigs: Vec<_> = t.votes.iter().skip(1).map(|(j, m)| c.sk[*j].sign_msg(m.clone()).sig).collect();
            sigs.push(c.sk[*i].sign_msg(other.clone()).sig);
            let mut q = good.clone();
            q.signature = agg(sigs.iter());
            cx.verdict("TimeoutQC", "sig-over-other-vote", vtqc(&q, c.genesis, c.epoch, &c.schedule), false);
        }
    }
    // incremental assembly
    {
        let mut order: Vec<usize> = (0..n).collect();
        order.shuffle(rng);
        let mut qc = TimeoutQC::new(c.view(view));
        let mut added: Vec<(usize, ReplicaTimeout)> = vec![];
        for i in order {
            let m = alpha[rng.gen_range(0..alpha.len())].clone();
            let before = qc.clone();
            let bad: Vec<(&str, validator::Signed<ReplicaTimeout>)> = vec![
                ("non-member", c.outsiders[0].sign_msg(m.clone())),
                ("other-view", c.sk[i].sign_msg(ReplicaTimeout { view: c.view(view + 1), high_vote: None, high_qc: None })),
                ("bad-signature", {
                    let mut s = c.sk[i].sign_msg(m.clone());
                    s.sig = c.outsiders[0].sign_msg(m.clone()).sig;
                    s
                }),
                ("invalid-nested-qc", {
                    let mut mm = m.clone();
                    let nm = ReplicaCommit { view: c.view(0), proposal: BlockHeader { number: validator::BlockNumber(0), payload: rng.gen() } };
                    mm.high_qc = Some(mk_commit_qc(c, &nm, &c.subset(rng, 2)));
                    c.sk[i].sign_msg(mm)
                }),
            ];
            for (name, s) in bad.iter() {
                let r = catch(|| {
                    let mut q = qc.clone();
                    let ok = q.add(s, c.genesis, c.epoch, &c.schedule).is_ok();
                    (ok, q)
                });
                match r {
                    Ok((ok, q)) => {
                        cx.verdict("TimeoutQC::add", name, Ok(ok), false);
                        if !ok && q != before {
                            cx.rep.violation(format!("add-mutated-on-error|TimeoutQC|{name}"), format!("a refused add changed the certificate ({})", cx.desc), json!({"case": cx.case}));
                        }
                    }
                    Err(p) => cx.verdict("TimeoutQC::add", name, Err(p), false),
                }
            }
            if let Some((j, mj)) = added.first() {
                // repeated signer, same or different message
                let other = alpha.iter().find(|a| *a != mj).unwrap_or(mj).clone();
                let s = c.sk[*j].sign_msg(other);
                let r = catch(|| qc.clone().add(&s, c.genesis, c.epoch, &c.schedule).is_ok());
                cx.verdict("TimeoutQC::add", "repeated-signer", r, false);
            }
            let s = c.sk[i].sign_msg(m.clone());
            let r = catch(|| qc.add(&s, c.genesis, c.epoch, &c.schedule).is_ok());
            cx.verdict("TimeoutQC::add", "valid-vote", r, true);
            added.push((i, m));
            let idx: Vec<usize> = added.iter().map(|a| a.0).collect();
            let want = c.weight_of(&idx) >= c.quorum();
            if want {
                cx.rep.count("incremental_qc_reached_quorum");
            }
            cx.verdict("TimeoutQC", "incrementally-assembled", vtqc(&qc, c.genesis, c.epoch, &c.schedule), want);
            if qc != mk_timeout_qc(c, &TSpec { view: c.view(view), votes: added.clone() }) {
                cx.rep.violation("add-differs-from-direct|TimeoutQC|".to_string(), format!("incrementally assembled certificate differs from the direct aggregate ({})", cx.desc), json!({"case": cx.case}));
            }
        }
    }
    good
}

fn wrapper_cases(cx: &mut Cx, c: &Committee, rng: &mut impl Rng, cqc: &CommitQC, tqc: &TimeoutQC) {
    let (g, e, s) = (c.genesis, c.epoch, &c.schedule);
    let mut bad_cqc = cqc.clone();
    bad_cqc.signature = AggregateSignature::default();
    let mut bad_tqc = tqc.clone();
    bad_tqc.view.number = validator::ViewNumber(tqc.view.number.0 + 1);
    let below = {
        let set = c.subset(rng, 2);
        mk_commit_qc(c, &cqc.message, &set)
    };
    for (name, j, want) in [
        ("commit-valid", ProposalJustification::Commit(cqc.clone()), true),
        ("commit-bad-sig", ProposalJustification::Commit(bad_cqc.clone()), false),
        ("commit-below-quorum", ProposalJustification::Commit(below.clone()), false),
        ("timeout-valid", ProposalJustification::Timeout(tqc.clone()), true),
        ("timeout-inconsistent-view", ProposalJustification::Timeout(bad_tqc.clone()), false),
    ] {
        let p = LeaderProposal { proposal_payload: if rng.gen_bool(0.5) { Some(rng.gen()) } else { None }, justification: j.clone() };
        cx.verdict("LeaderProposal", name, catch(|| p.verify(g, e, s).is_ok()), want);
        cx.verdict("LeaderProposal", &format!("{name}/other-epoch-param"), catch(|| p.verify(g, e.next(), s).is_ok()), false);
        let nv = ReplicaNewView { justification: j };
        cx.verdict("ReplicaNewView", name, catch(|| nv.verify(g, e, s).is_ok()), want);
        cx.verdict("ReplicaNewView", &format!("{name}/other-genesis-param"), catch(|| nv.verify(rng.gen(), e, s).is_ok()), false);
    }
    // ReplicaTimeout::verify
    let v = tqc.view.number.0;
    let hv_ok = ReplicaCommit { view: c.view(v), proposal: BlockHeader { number: validator::BlockNumber(1), payload: rng.gen() } };
    let mut hv_bad = hv_ok.clone();
    hv_bad.view.epoch = hv_bad.view.epoch.next();
    for (name, m, want) in [
        ("valid-empty", ReplicaTimeout { view: c.view(v), high_vote: None, high_qc: None }, true),
        ("valid-full", ReplicaTimeout { view: c.view(v), high_vote: Some(hv_ok.clone()), high_qc: Some(cqc.clone()) }, true),
        ("high-vote-other-epoch", ReplicaTimeout { view: c.view(v), high_vote: Some(hv_bad), high_qc: None }, false),
        ("high-qc-bad-sig", ReplicaTimeout { view: c.view(v), high_vote: None, high_qc: Some(bad_cqc.clone()) }, false),
        ("high-qc-below-quorum", ReplicaTimeout { view: c.view(v), high_vote: None, high_qc: Some(below.clone()) }, false),
        ("view-other-genesis", { let mut m = ReplicaTimeout { view: c.view(v), high_vote: None, high_qc: None }; m.view.genesis = rng.gen(); m }, false),
    ] {
        cx.verdict("ReplicaTimeout", name, catch(|| m.verify(g, e, s).is_ok()), want);
    }
    // FinalBlock::verify
    let payload: Payload = Payload((0..rng.gen_range(0..300)).map(|_| rng.gen()).collect());
    let mut m = cqc.message.clone();
    m.proposal.payload = payload.hash();
    let mode = if rng.gen_bool(0.5) { 1 } else { 3 };
    let set = c.subset(rng, mode);
    let qc = mk_commit_qc(c, &m, &set);
    let fb = FinalBlock { payload: payload.clone(), justification: qc.clone() };
    cx.verdict("FinalBlock", "valid", catch(|| fb.verify(g, e, s).is_ok()), true);
    {
        let mut p2 = payload.clone();
        if p2.0.is_empty() { p2.0.push(0) } else { let k = rng.gen_range(0..p2.0.len()); p2.0[k] ^= 1 << rng.gen_range(0..8); }
        let b = FinalBlock { payload: p2, justification: qc.clone() };
        cx.verdict("FinalBlock", "payload-bit-flip", catch(|| b.verify(g, e, s).is_ok()), false);
        let mut p3 = payload.clone();
        p3.0.push(0);
        let b = FinalBlock { payload: p3, justification: qc.clone() };
        cx.verdict("FinalBlock", "payload-extended", catch(|| b.verify(g, e, s).is_ok()), false);
        // header hash swapped to match another payload: the certificate no longer covers the header
        let other: Payload = rng.gen();
        let mut q2 = qc.clone();
        q2.message.proposal.payload = other.hash();
        let b = FinalBlock { payload: other, justification: q2 };
        cx.verdict("FinalBlock", "header-hash-swapped", catch(|| b.verify(g, e, s).is_ok()), false);
        let b = FinalBlock { payload: payload.clone(), justification: mk_commit_qc(c, &m, &c.subset(rng, 2)) };
        cx.verdict("FinalBlock", "certificate-below-quorum", catch(|| b.verify(g, e, s).is_ok()), false);
        cx.verdict("FinalBlock", "other-epoch-param", catch(|| fb.verify(g, e.next(), s).is_ok()), false);
    }
    // other schedules
    {
        // same keys, different weights: verdict follows the *verifying* schedule
        let fam = rng.gen_range(0..6);
        let w2 = crate::gen::weights(rng, c.n(), fam);
        let s2 = Schedule::new(
            c.sk.iter().zip(&w2).map(|(k, w)| validator::ValidatorInfo { key: k.public(), weight: *w, leader: true }),
            validator::LeaderSelection::default(),
        ).unwrap();
        let tot: u128 = w2.iter().map(|x| *x as u128).sum();
        let q2 = tot - (tot - 1) / 5;
        let set: Vec<usize> = (0..c.n()).filter(|i| cqc.signers.0[*i]).collect();
        let wgt: u128 = set.iter().map(|i| w2[*i] as u128).sum();
        cx.verdict("CommitQC", "verified-against-reweighted-schedule", vqc(cqc, g, e, &s2), wgt >= q2);
        // a committee of the same size made of other keys
        let mut pool: Vec<SecretKey> = c.sk.clone();
        pool[0] = c.outsiders[0].clone();
        let s3 = Schedule::new(
            pool.iter().zip(&c.w).map(|(k, w)| validator::ValidatorInfo { key: k.public(), weight: *w, leader: true }),
            validator::LeaderSelection::default(),
        ).unwrap();
        // ground truth: bit i now refers to s3's i-th key; genuine iff every marked index maps to the same key and weights reach quorum
        let same = set.iter().all(|i| s3.get(*i).map(|v| v.key.clone()) == c.schedule.get(*i).map(|v| v.key.clone()));
        let wgt3: u128 = set.iter().map(|i| s3.get(*i).unwrap().weight as u128).sum();
        let tot3 = s3.total_weight() as u128;
        cx.verdict("CommitQC", "verified-against-other-committee", vqc(cqc, g, e, &s3), same && wgt3 >= tot3 - (tot3 - 1) / 5);
    }
    // Signed<_>::verify
    {
        let k = &c.sk[0];
        let msg = hv_ok.clone();
        let s = k.sign_msg(msg.clone());
        cx.verdict("Signed", "valid", catch(|| s.verify().is_ok()), true);
        let mut s2 = s.clone();
        s2.key = c.outsiders[0].public();
        cx.verdict("Signed", "key-replaced", catch(|| s2.verify().is_ok()), false);
        let mut s3 = s.clone();
        s3.sig = c.outsiders[0].sign_msg(msg.clone()).sig;
        cx.verdict("Signed", "sig-by-other-key", catch(|| s3.verify().is_ok()), false);
        let mut s4 = s.clone();
        s4.msg.proposal.number = validator::BlockNumber(s4.msg.proposal.number.0 + 1);
        cx.verdict("Signed", "message-altered", catch(|| s4.verify().is_ok()), false);
    }
}

pub fn run(args: &Args, rep: &mut Report) {
    rep.rule = "one evaluation = one accept/reject verdict of verify()/add() compared with the generator's ground truth; \
                a case = one committee (1-8 validators, weight family, genesis, epoch) with signer subsets around the quorum, \
                incremental assembly with interleaved bad adds, and every single-field corruption of a valid certificate; \
                distinct = distinct (case, object, corruption) triples"
        .into();
    let ncases: u64 = args.extra_u64("cases").unwrap_or(args.pick(30, 1500));
    let mut pool_rng = rng_for(args.seed, args.shard, 40, 0);
    let pool = crate::gen::keys(&mut pool_rng, 11);
    let only: Option<u64> = args.replay.as_ref().map(|p| {
        let v: vcommon::Value = vcommon::serde_json::from_slice(&std::fs::read(p).unwrap()).unwrap();
        v["replay"]["case"].as_u64().unwrap()
    });
    for case in 0..ncases {
        if let Some(o) = only {
            if o != case {
                continue;
            }
        } else if !rep.within_budget() {
            rep.count("stopped_by_budget");
            break;
        }
        let mut rng = rng_for(args.seed, args.shard, 4, case);
        let n = 1 + (case as usize + args.shard as usize) % 8;
        let family = rng.gen_range(0..6);
        let c = Committee::new(&mut rng, &pool, n, family);
        let desc = format!("case {case}: n={n} weights={:?} quorum={} epoch={}", c.w, c.quorum(), c.epoch.0);
        rep.count("cases");
        rep.count(&format!("committee_size_{n}"));
        let before = rep.evaluations;
        let mut cx = Cx { rep, case, desc: desc.clone() };
        let cqc = commit_qc_cases(&mut cx, &c, &mut rng);
        commit_qc_add_cases(&mut cx, &c, &mut rng);
        let tqc = timeout_qc_cases(&mut cx, &c, &mut rng, &cqc);
        wrapper_cases(&mut cx, &c, &mut rng, &cqc, &tqc);
        let verdicts = rep.evaluations - before;
        if rep.samples.len() < rep.max_samples {
            rep.sample(json!({"case": case, "committee": desc, "verdicts_checked": verdicts}));
        }
    }
}
