//! C07 - quorum arithmetic. Oracle: the inequalities of the property re-computed in u128.
use rand::Rng;
use vcommon::{catch, json, rng_for, Args, Report};
use zksync_consensus_roles::validator;

/// Returns Err(kind) if some inequality fails for n.
fn check(n: u64, f: u64, q: u64, s: u64) -> Result<(), &'static str> {
    let (n, f, q, s) = (n as u128, f as u128, q as u128, s as u128);
    if 5 * f + 1 > n {
        return Err("5f+1<=n");
    }
    if 5 * (f + 1) + 1 <= n {
        return Err("f-maximal");
    }
    if q != n - f {
        return Err("q=n-f");
    }
    if n < 3 * f || s != n - 3 * f {
        return Err("s=n-3f");
    }
    // two quorums share more than f
    if 2 * q < n || 2 * q - n <= f {
        return Err("2q-n>f");
    }
    // commit quorum and timeout quorum share >= sub-quorum of correct weight
    if 2 * q - n < f || 2 * q - n - f < s {
        return Err("2q-n-f>=s");
    }
    // conflicting reporters (2f) stay below the sub-quorum
    if 2 * f >= s {
        return Err("2f<s");
    }
    if !(1 <= s && s <= q && q <= n) {
        return Err("1<=s<=q<=n");
    }
    Ok(())
}

fn eval(n: u64, rep: &mut Report, class: &str) {
    rep.evaluations += 1;
    let r = catch(|| {
        (
            validator::max_faulty_weight(n),
            validator::quorum_threshold(n),
            validator::subquorum_threshold(n),
        )
    });
    match r {
        Err(p) => rep.violation(
            format!("panic|{}|{}", p.loc(), class),
            format!("threshold computation panicked for n={n}: {}", p.message),
            json!({"n": n.to_string()}),
        ),
        Ok((f, q, s)) => {
            if let Err(kind) = check(n, f, q, s) {
                rep.violation(
                    format!("inequality|{kind}|{class}"),
                    format!("n={n} f={f} q={q} s={s} violates {kind}"),
                    json!({"n": n.to_string()}),
                );
            }
            rep.distinct(n);
            if rep.samples.len() < rep.max_samples && (n % 7 == 3 || n > 1 << 62) {
                rep.sample(json!({"n": n.to_string(), "f": f.to_string(), "quorum": q.to_string(), "subquorum": s.to_string(), "class": class}));
            }
        }
    }
}

pub fn run(args: &Args, rep: &mut Report) {
    rep.rule = "one evaluation = the three threshold functions on one total weight n, compared with the u128 \
                re-computation of the C07 inequalities; distinct = distinct n (every n>=1 is non-trivial)"
        .into();
    if let Some(path) = &args.replay {
        let v: vcommon::Value = vcommon::serde_json::from_slice(&std::fs::read(path).unwrap()).unwrap();
        let n: u64 = v["replay"]["n"].as_str().unwrap().parse().unwrap();
        eval(n, rep, "replay");
        return;
    }
    let sh = args.shard;
    let ns = args.nshards;
    // (1) dense low range
    let dense: u64 = args.pick(2_000_000, 40_000_000);
    let mut n = 1 + sh;
    while n <= dense {
        eval(n, rep, "dense");
        n += ns;
    }
    rep.add("dense_range_end", if sh == 0 { dense } else { 0 });
    // (2) boundaries: +-64 around every power of two, u64::MAX, multiples of 5 near them
    let mut idx = 0u64;
    for p in 1..=64u32 {
        let c: u128 = 1u128 << p;
        for d in -70i128..=70 {
            let v = c as i128 + d;
            if v >= 1 && v <= u64::MAX as i128 {
                if idx % ns == sh {
                    eval(v as u64, rep, "pow2-boundary");
                    rep.count("boundary_points");
                }
                idx += 1;
            }
        }
    }
    // (3) random u64, all residues mod 5 forced
    let nrand: u64 = args.pick(200_000, 5_000_000);
    let mut rng = rng_for(args.seed, sh, 7, 0);
    for i in 0..nrand {
        let base: u64 = rng.gen();
        let v = (base - base % 5).saturating_add(i % 5).max(1);
        eval(v, rep, "random");
        *rep.counters.entry(format!("residue_mod5_{}", v % 5)).or_default() += 1;
    }
    // (4) through Schedule: thresholds of a real schedule equal the free functions; weight sums at the
    //     u64 boundary are accepted (== MAX) / rejected (overflow).
    if sh == 0 {
        let mut rng = rng_for(args.seed, 0, 8, 0);
        let keys = crate::gen::keys(&mut rng, 4);
        let mk = |w: &[u64]| {
            validator::Schedule::new(
                keys.iter().zip(w).map(|(k, w)| validator::ValidatorInfo {
                    key: k.public(),
                    weight: *w,
                    leader: true,
                }),
                validator::LeaderSelection::default(),
            )
        };
        let m = u64::MAX;
        for (w, ok) in [
            (vec![m / 4, m / 4, m / 4, m - 3 * (m / 4)], true), // sum == u64::MAX
            (vec![m / 4, m / 4, m / 4, m - 3 * (m / 4) + 1], false), // sum == 2^64
            (vec![m, 1, 1, 1], false),
            (vec![1, 2, 3, 4], true),
            (vec![m - 3, 1, 1, 1], true),
        ] {
            rep.evaluations += 1;
            rep.count("schedule_sum_cases");
            match catch(|| mk(&w)) {
                Err(p) => rep.violation(
                    format!("panic|{}|schedule-new", p.loc()),
                    format!("Schedule::new panicked on weights {w:?}: {}", p.message),
                    json!({"weights": w.iter().map(|x| x.to_string()).collect::<Vec<_>>()}),
                ),
                Ok(r) => {
                    if r.is_ok() != ok {
                        rep.violation(
                            "schedule-sum|accept-mismatch|schedule-new".to_string(),
                            format!("Schedule::new({w:?}) ok={} expected {ok}", r.is_ok()),
                            json!({}),
                        );
                    }
                    if let Ok(s) = r {
                        let n = s.total_weight();
                        let sum: u128 = w.iter().map(|x| *x as u128).sum();
                        if n as u128 != sum
                            || s.quorum_threshold() != validator::quorum_threshold(n)
                            || s.subquorum_threshold() != validator::subquorum_threshold(n)
                            || s.max_faulty_weight() != validator::max_faulty_weight(n)
                        {
                            rep.violation(
                                "schedule-sum|threshold-mismatch|schedule-new".to_string(),
                                format!("schedule thresholds disagree for {w:?}"),
                                json!({}),
                            );
                        }
                        eval(n, rep, "schedule-total");
                    }
                }
            }
        }
    }
}
