//! Generators shared by the E2 workloads.
use rand::{seq::SliceRandom, Rng};
use zksync_consensus_roles::validator;

/// Deterministic pool of validator keys (BLS key generation is the slow part).
pub fn keys(rng: &mut impl Rng, n: usize) -> Vec<validator::SecretKey> {
    (0..n).map(|_| rng.gen()).collect()
}

/// Weight families used across workloads.
pub fn weights(rng: &mut impl Rng, n: usize, family: usize) -> Vec<u64> {
    match family % 6 {
        0 => vec![1; n],
        1 => {
            // one heavy validator
            let mut w = vec![1u64; n];
            let i = rng.gen_range(0..n);
            w[i] = rng.gen_range(2..=(n as u64 * 3).max(2));
            w
        }
        2 => (0..n).map(|_| rng.gen_range(1..=20)).collect(),
        3 => (0..n).map(|_| rng.gen_range(1..=5)).collect(),
        4 => {
            // extreme, but the sum stays below 2^64
            let cap = u64::MAX / (n as u64);
            (0..n).map(|_| rng.gen_range(cap / 2..=cap)).collect()
        }
        _ => (0..n).map(|_| 1u64 << rng.gen_range(0..8)).collect(),
    }
}

pub fn shuffled<T: Clone>(rng: &mut impl Rng, v: &[T]) -> Vec<T> {
    let mut v = v.to_vec();
    v.shuffle(rng);
    v
}
