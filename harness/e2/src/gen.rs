//! Generators shared by the E2 workloads.
use rand::{seq::SliceRandom, Rng};
use zksync_consensus_roles::validator;

/// Deterministic pool of validator keys (BLS key generation is the slow part).
pub fn keys(rng: &mut impl Rng, n: usize) -> Vec<validator::SecretKey> {
    (0..n).map(|_| rng.gen()).collect()
}

/// Weight families used across workloads.
pub fn weights(rng: &mut impl Rng, n: usize, family: usize) -> Vec<u64> {
    match family % 6 {
        0 => vec![1; n],
        1 => {
            // one heavy validator
            let mut w = vec![1u64; n];
            let i = rng.gen_range(0..n);
            w[i] = rng.gen_range(2..=(n as u64 * 3).max(2));
            w
        }
        2 => (0..n).map(|_| rng.gen_range(1..=20)).collect(),
        3 => (0..n).map(|_| rng.gen_range(1..=5)).collect(),
        4 => {
            // extreme, but the sum stays below 2^64
            let cap = u64::MAX / (n as u64);
            (0..n).map(|_| rng.gen_range(cap / 2..=cap)).collect()
        }
        _ => (0..n).map(|_| 1u64 << rng.gen_range(0..8)).collect(),
    }
}

pub fn shuffled<T: Clone>(rng: &mut impl Rng, v: &[T]) -> Vec<T> {
    let mut v = v.to_vec();
    v.shuffle(rng);
    v
}

/// A generated committee with ground truth (which secret key sits at which schedule index).
pub struct Committee {
    pub schedule: validator::Schedule,
    /// secret keys in *schedule order* (index i signs bit i)
    pub sk: Vec<validator::SecretKey>,
    pub w: Vec<u64>,
    pub genesis: validator::GenesisHash,
    pub epoch: validator::EpochNumber,
    /// keys that are not members
    pub outsiders: Vec<validator::SecretKey>,
}

impl Committee {
    pub fn new(rng: &mut impl Rng, pool: &[validator::SecretKey], n: usize, family: usize) -> Self {
        let w = weights(rng, n, family);
        let mut idx: Vec<usize> = (0..pool.len()).collect();
        idx.shuffle(rng);
        let members: Vec<_> = idx[..n].iter().map(|i| pool[*i].clone()).collect();
        let outsiders: Vec<_> = idx[n..].iter().take(2).map(|i| pool[*i].clone()).collect();
        let schedule = validator::Schedule::new(
            members.iter().zip(&w).map(|(k, w)| validator::ValidatorInfo {
                key: k.public(),
                weight: *w,
                leader: true,
            }),
            validator::LeaderSelection::default(),
        )
        .unwrap();
        // ground truth in schedule order
        let mut sk = vec![];
        let mut ww = vec![];
        for v in schedule.iter() {
            let j = members.iter().position(|m| m.public() == v.key).unwrap();
            sk.push(members[j].clone());
            ww.push(w[j]);
        }
        Committee {
            schedule,
            sk,
            w: ww,
            genesis: rng.gen(),
            epoch: validator::EpochNumber(rng.gen_range(0..3)),
            outsiders,
        }
    }
    pub fn n(&self) -> usize {
        self.sk.len()
    }
    pub fn total(&self) -> u128 {
        self.w.iter().map(|x| *x as u128).sum()
    }
    /// independent thresholds in u128
    pub fn f(&self) -> u128 {
        (self.total() - 1) / 5
    }
    pub fn quorum(&self) -> u128 {
        self.total() - self.f()
    }
    pub fn subquorum(&self) -> u128 {
        self.total() - 3 * self.f()
    }
    pub fn weight_of(&self, set: &[usize]) -> u128 {
        set.iter().map(|i| self.w[*i] as u128).sum()
    }
    pub fn view(&self, number: u64) -> validator::v2::View {
        validator::v2::View {
            genesis: self.genesis,
            epoch: self.epoch,
            number: validator::ViewNumber(number),
        }
    }
    /// A subset of signers whose weight relates to the quorum as requested:
    /// 0 = random, 1 = minimal set reaching the quorum (dropping any member goes below),
    /// 2 = a maximal set strictly below the quorum, 3 = everybody, 4 = single signer
    pub fn subset(&self, rng: &mut impl Rng, mode: usize) -> Vec<usize> {
        let n = self.n();
        let mut order: Vec<usize> = (0..n).collect();
        order.shuffle(rng);
        let q = self.quorum();
        let mut set: Vec<usize> = match mode % 5 {
            0 => order.iter().copied().filter(|_| rng.gen_bool(0.7)).collect(),
            1 => {
                let mut s = vec![];
                for i in &order {
                    if self.weight_of(&s) >= q {
                        break;
                    }
                    s.push(*i);
                }
                // make it minimal: drop members that are not needed
                let mut k = 0;
                while k < s.len() {
                    let mut t = s.clone();
                    t.remove(k);
                    if self.weight_of(&t) >= q {
                        s = t;
                    } else {
                        k += 1;
                    }
                }
                s
            }
            2 => {
                let mut s = vec![];
                for i in &order {
                    let mut t = s.clone();
                    t.push(*i);
                    if self.weight_of(&t) < q {
                        s = t;
                    }
                }
                s
            }
            3 => order.clone(),
            _ => vec![order[0]],
        };
        set.sort();
        set
    }
}
