//! E2: pure-function workloads. Generated inputs -> real function of /repo -> independent oracle.
mod c02;
mod c04;
mod c07;
mod c09;
mod c11;
mod gen;

use vcommon::{Args, Report};

fn main() {
    let args = Args::parse();
    vcommon::install_quiet_panic_hook();
    let mut rep = Report::new(&args);
    match args.prop.as_str() {
        "C02" => c02::run(&args, &mut rep),
        "C04" => c04::run(&args, &mut rep),
        "C07" => c07::run(&args, &mut rep),
        "C09" => c09::run(&args, &mut rep),
        "C11" => c11::run(&args, &mut rep),
        p => panic!("unknown property {p}"),
    }
    std::process::exit(rep.finish());
}
