//! C11 - leader election. Oracle: an independent reference of the documented rule plus
//! reference-free checks (totality, eligibility, permutation invariance, constancy within a turn,
//! round-robin coverage, weighted shares as an advisory statistic).
use std::collections::BTreeMap;

use rand::{seq::SliceRandom, Rng};
use sha3::{Digest, Keccak256};
use vcommon::{catch, hash_of, json, rng_for, Args, Report, Value};
use zksync_consensus_roles::validator::{
    self, LeaderSelection, LeaderSelectionMode, Schedule, ValidatorInfo, ViewNumber,
};

#[derive(Clone, Debug)]
struct Spec {
    nkeys: usize,
    weights: Vec<u64>,
    leader: Vec<bool>,
    freq: u64,
    weighted: bool,
    keyseed: u64,
}

impl Spec {
    fn to_json(&self) -> Value {
        json!({"weights": self.weights.iter().map(|w| w.to_string()).collect::<Vec<_>>(),
               "leader": self.leader, "frequency": self.freq.to_string(), "weighted": self.weighted,
               "keyseed": self.keyseed.to_string(), "nkeys": self.nkeys})
    }
    fn from_json(v: &Value) -> Self {
        Spec {
            nkeys: v["nkeys"].as_u64().unwrap() as usize,
            weights: v["weights"].as_array().unwrap().iter().map(|w| w.as_str().unwrap().parse().unwrap()).collect(),
            leader: v["leader"].as_array().unwrap().iter().map(|b| b.as_bool().unwrap()).collect(),
            freq: v["frequency"].as_str().unwrap().parse().unwrap(),
            weighted: v["weighted"].as_bool().unwrap(),
            keyseed: v["keyseed"].as_str().unwrap().parse().unwrap(),
        }
    }
    fn infos(&self) -> Vec<ValidatorInfo> {
        let mut rng = rng_for(self.keyseed, 0, 11, 0);
        let keys = crate::gen::keys(&mut rng, self.nkeys);
        keys.iter()
            .enumerate()
            .map(|(i, k)| ValidatorInfo {
                key: k.public(),
                weight: self.weights[i],
                leader: self.leader[i],
            })
            .collect()
    }
    fn selection(&self) -> LeaderSelection {
        LeaderSelection {
            frequency: self.freq,
            mode: if self.weighted {
                LeaderSelectionMode::Weighted
            } else {
                LeaderSelectionMode::RoundRobin
            },
        }
    }
}

/// Reference: documented behaviour, written without looking at the arithmetic of the implementation.
/// `eligible` = (key index in schedule order, weight) of leader-eligible validators in schedule order.
fn reference(eligible: &[(usize, u64)], freq: u64, weighted: bool, view: u64) -> usize {
    let turn = if freq == 0 { 0 } else { view / freq };
    if !weighted {
        let i = (turn % eligible.len() as u64) as usize;
        eligible[i].0
    } else {
        let total: u128 = eligible.iter().map(|e| e.1 as u128).sum();
        let digest = Keccak256::digest(turn.to_be_bytes());
        // big-endian 256-bit integer mod total, schoolbook
        let mut r: u128 = 0;
        for b in digest.iter() {
            r = ((r << 8) | *b as u128) % total;
        }
        let mut acc: u128 = 0;
        for (i, w) in eligible {
            acc += *w as u128;
            if r < acc {
                return *i;
            }
        }
        unreachable!("reference walk")
    }
}

fn boundary_views(freq: u64, rng: &mut impl Rng, nrand: usize) -> Vec<u64> {
    let mut v: Vec<u64> = vec![0, 1, 2, 3, u64::MAX, u64::MAX - 1, u64::MAX / 2, 1 << 32, (1 << 32) - 1];
    if freq > 0 {
        for k in [1u64, 2, 3, 10, 1000] {
            if let Some(m) = freq.checked_mul(k) {
                v.push(m);
                v.push(m - 1);
                v.push(m.saturating_add(1));
            }
        }
        let top = u64::MAX - u64::MAX % freq;
        v.push(top);
        v.push(top.saturating_sub(1));
    }
    for _ in 0..nrand {
        v.push(rng.gen());
        v.push(rng.gen_range(0..1_000_000));
    }
    v
}

fn check_spec(spec: &Spec, rep: &mut Report, dense: u64, nrand: usize, case_rng: &mut impl Rng) {
    let infos = spec.infos();
    let class = format!(
        "{}|freq{}",
        if spec.weighted { "weighted" } else { "round-robin" },
        match spec.freq {
            0 => "=0",
            1 => "=1",
            _ => ">1",
        }
    );
    let sched = match catch(|| Schedule::new(infos.clone(), spec.selection())) {
        Ok(Ok(s)) => s,
        Ok(Err(_)) => {
            rep.count("invalid_schedules_rejected");
            return;
        }
        Err(p) => {
            rep.violation(format!("panic|{}|schedule-new", p.loc()), p.message, spec.to_json());
            return;
        }
    };
    rep.count("schedules");
    rep.count(&format!("schedules_{class}"));
    // a permutation of the same validator list
    let mut perm = infos.clone();
    perm.shuffle(case_rng);
    let sched_perm = Schedule::new(perm, spec.selection()).expect("permuted schedule");
    // eligible list in schedule order
    let eligible: Vec<(usize, u64)> = sched
        .iter()
        .enumerate()
        .filter(|(_, v)| v.leader)
        .map(|(i, v)| (i, v.weight))
        .collect();
    let by_key: BTreeMap<validator::PublicKey, usize> =
        sched.iter().enumerate().map(|(i, v)| (v.key.clone(), i)).collect();

    let mut views: Vec<u64> = (0..dense).collect();
    views.extend(boundary_views(spec.freq, case_rng, nrand));
    let mut tally: BTreeMap<usize, u64> = BTreeMap::new();
    let mut last: Option<(u64, usize)> = None; // (turn, leader) for constancy within a turn
    let mut rr_seq: Vec<usize> = vec![]; // leader per turn (dense part) for round-robin coverage
    let mut distinct_leaders = std::collections::BTreeSet::new();
    for (vi, &view) in views.iter().enumerate() {
        rep.evaluations += 1;
        let got = catch(|| sched.view_leader(ViewNumber(view)));
        let got = match got {
            Err(p) => {
                rep.violation(
                    format!("panic|{}|{}", p.loc(), class),
                    format!("view_leader panicked at view {view}: {}", p.message),
                    json!({"spec": spec.to_json(), "view": view.to_string()}),
                );
                continue;
            }
            Ok(k) => k,
        };
        let Some(&idx) = by_key.get(&got) else {
            rep.violation(
                format!("not-member||{class}"),
                format!("leader of view {view} is not in the committee"),
                json!({"spec": spec.to_json(), "view": view.to_string()}),
            );
            continue;
        };
        distinct_leaders.insert(idx);
        if !sched.get(idx).unwrap().leader {
            rep.violation(
                format!("not-eligible||{class}"),
                format!("leader of view {view} (index {idx}) is not leader-eligible"),
                json!({"spec": spec.to_json(), "view": view.to_string()}),
            );
        }
        let want = reference(&eligible, spec.freq, spec.weighted, view);
        if want != idx {
            rep.violation(
                format!("reference-mismatch||{class}"),
                format!("view {view}: implementation chose index {idx}, reference {want}"),
                json!({"spec": spec.to_json(), "view": view.to_string()}),
            );
        }
        match catch(|| sched_perm.view_leader(ViewNumber(view))) {
            Ok(k2) if k2 == got => {}
            Ok(_) => rep.violation(
                format!("permutation-dependent||{class}"),
                format!("view {view}: leader depends on the listing order of the schedule"),
                json!({"spec": spec.to_json(), "view": view.to_string()}),
            ),
            Err(_) => {} // already reported through the primary schedule
        }
        if (vi as u64) < dense {
            *tally.entry(idx).or_default() += 1;
            let turn = if spec.freq == 0 { 0 } else { view / spec.freq };
            if let Some((t, l)) = last {
                if t == turn && l != idx {
                    rep.violation(
                        format!("changes-within-turn||{class}"),
                        format!("leader changed inside turn {turn} (view {view})"),
                        json!({"spec": spec.to_json(), "view": view.to_string()}),
                    );
                }
            }
            if last.map(|(t, _)| t) != Some(turn) {
                rr_seq.push(idx);
            }
            last = Some((turn, idx));
        }
    }
    // round-robin: every window of |eligible| consecutive turns visits every eligible validator once
    if !spec.weighted && spec.freq > 0 {
        let k = eligible.len();
        for w in rr_seq.windows(k) {
            let mut s = w.to_vec();
            s.sort();
            s.dedup();
            if s.len() != k {
                rep.violation(
                    format!("round-robin-coverage||{class}"),
                    "a window of |eligible| turns does not visit every eligible validator exactly once",
                    json!({"spec": spec.to_json()}),
                );
                break;
            }
        }
        rep.add("rr_windows_checked", rr_seq.len().saturating_sub(k - 1) as u64);
    }
    if spec.freq == 0 && distinct_leaders.len() > 1 {
        rep.violation(
            format!("rotates-with-frequency-0||{class}"),
            "frequency 0 must never rotate",
            json!({"spec": spec.to_json()}),
        );
    }
    // weighted share: advisory statistic (reported, never a violation by itself)
    if spec.weighted && spec.freq == 1 && dense >= 10_000 {
        let total: f64 = eligible.iter().map(|e| e.1 as f64).sum();
        let mut worst: f64 = 0.0;
        for (i, w) in &eligible {
            let p = *w as f64 / total;
            let n = dense as f64;
            let sd = (n * p * (1.0 - p)).sqrt().max(1.0);
            let got = *tally.get(i).unwrap_or(&0) as f64;
            worst = worst.max(((got - n * p) / sd).abs());
        }
        rep.max("weighted_share_worst_sigma_x100", (worst * 100.0) as u64);
        if worst > 5.0 {
            rep.count("advisory_share_outside_5_sigma");
        }
        rep.count("weighted_share_checks");
    }
    rep.distinct(hash_of(&(
        &spec.weights,
        &spec.leader,
        spec.freq,
        spec.weighted,
        spec.keyseed,
    )));
    if rep.samples.len() < rep.max_samples {
        rep.sample(json!({"schedule": spec.to_json(), "views_checked": views.len(),
            "leaders_seen": distinct_leaders.len(), "eligible": eligible.len()}));
    }
}

fn gen_spec(rng: &mut impl Rng, i: u64) -> Spec {
    let n = rng.gen_range(1..=12usize);
    let weights = match rng.gen_range(0..5) {
        0 => vec![1; n],
        1 => crate::gen::weights(rng, n, 2),
        2 => crate::gen::weights(rng, n, 4),
        3 => crate::gen::weights(rng, n, 1),
        _ => (0..n).map(|_| rng.gen_range(1..=3)).collect(),
    };
    let mut leader: Vec<bool> = match rng.gen_range(0..4) {
        0 => vec![true; n],
        1 => (0..n).map(|_| rng.gen_bool(0.5)).collect(),
        2 => (0..n).map(|j| j == 0).collect(),
        _ => (0..n).map(|_| rng.gen_bool(0.2)).collect(),
    };
    if !leader.iter().any(|b| *b) {
        let j = rng.gen_range(0..n);
        leader[j] = true;
    }
    let freqs = [0u64, 1, 1, 2, 7, 1 << 32, u64::MAX, 3];
    Spec {
        nkeys: n,
        weights,
        leader,
        freq: freqs[(i as usize / 2) % freqs.len()],
        weighted: i % 2 == 1,
        keyseed: rng.gen_range(0..4), // few key sets: BLS keygen dominates otherwise
    }
}

pub fn run(args: &Args, rep: &mut Report) {
    rep.rule = "one evaluation = view_leader(schedule, view) compared with the reference rule and the \
                reference-free checks; distinct = distinct schedules (weights x eligibility x mode x frequency x key set), \
                each checked on a dense view prefix + boundary + random views"
        .into();
    if let Some(path) = &args.replay {
        let v: Value = vcommon::serde_json::from_slice(&std::fs::read(path).unwrap()).unwrap();
        let r = &v["replay"];
        let spec = Spec::from_json(if r.get("spec").is_some() { &r["spec"] } else { r });
        let mut rng = rng_for(args.seed, 0, 1, 0);
        check_spec(&spec, rep, 2000, 50, &mut rng);
        return;
    }
    let nspecs: u64 = args.pick(40, 400);
    let dense: u64 = args.pick(3_000, 20_000);
    for i in 0..nspecs {
        if !rep.within_budget() {
            rep.count("stopped_by_budget");
            break;
        }
        let case = i * args.nshards + args.shard;
        let mut rng = rng_for(args.seed, args.shard, 11, case);
        let spec = gen_spec(&mut rng, i + args.shard);
        let d = if spec.weighted && spec.freq == 1 { dense.max(10_000) } else { dense };
        check_spec(&spec, rep, d, 200, &mut rng);
    }
}
